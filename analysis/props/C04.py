"""C04 - closed-form (SVD) rigid registration.

Rules (on all eight point-type instantiations, both estimate_ overloads, all four find overloads)
  V1  reflection handling: the matrix stored in the rotation block is data-dependent on a determinant (sign) computed from the
      SVD factors - enumerated idioms: `if (det(u)*det(v) < 0 | det(v*u^T) < 0) negate the LAST column of v (or u)`,
      `v * diag(1,..,det) * u^T`, Eigen::umeyama.  Without it coplanar 3-D (and degenerate 2-D) sets can yield det = -1.
  V2  centroid map: translation column = targetMean - R * sourceMean on an identity-initialised H; the means are the means of the
      corresponded source / target points (roles not swapped, divided by the number of pairs)
  V3  covariance orientation pairs with the factor order: sum (s - ms)(t - mt)^T  <->  V U^T   (transposed pairing <-> U V^T);
      U = matrixU, V = matrixV of the SVD of the CARTESIAN block of that covariance
  V4  preconditioning: both find(Preconditioned...) overloads divide exactly the translation block by the target set's scale and call
      estimate_ on the underlying sets; the raw overloads return estimate_ unchanged
  V5  the two estimate_ overloads agree statement by statement after normalising how a pair is fetched
  V6  all eight point types are explicitly instantiated
  V8  closed-form tail (fallback when the rotation is not assembled from SVD factors): the statements after the covariance loop are read
      symbolically with the covariance as input (constant-folded `if (CARTESIAN_DIM == 2)` arms pruned); with cov = S R(phi)^T for a
      positive definite S the stored rotation must be R(phi) for witness angles on both sides of pi/2 and near pi (the quantifier has
      every angle up to pi) and the translation column must be targetMean - R sourceMean; a path that returns before any rotation is
      stored, under a tolerance test on the covariance, is reported (the covariance scales with the square of the preconditioning scale)
  V7  preconditioned set (the input of the preconditioned find overloads, re-used across calls by its owners): after compute(points, ..)
      the stored set has exactly points.size() elements on every path of allocate_() - whatever size an earlier, larger cloud left behind -
      and every compute overload either delegates or calls allocate_(points.size()) before a loop that writes every index 0..points.size()
Not decided: least-squares optimality numerics, 1e-9 recovery, order independence to rounding."""
from ..tree import sx, walk, pp, strip_casts, const_value, short_fn
from .C20 import m, deep_unwrap
import re
import sympy as sp
from .. import sym

LEVEL = 'other'
UNITS = ['src/transform/estimation/FindRigidTransformationBySVD.cpp', 'src/pointset/algorithms/PreconditionedPointSet.cpp']
ENGINES = 'E-STATE + E-SIB + E-WIT over romea-facts'
TECHNIQUE = 'any spelling of the reflection test evaluated on determinants of both scalar types, weighted sums divided by the sum of the weights, noalias stores on overlapping block regions, scaling argument of Eigen::umeyama, guards on the rotation store (tolerance tests on singular values), in-place scalings of the covariance by quantities that are not positive for every input, accumulation loops stepped on witness list sizes (every correspondence reaches the sums), tail from the result declaration read with symbolic SVD factors and means whose homogeneous coordinate is symbolic, returns in front of the accumulation loops (pairing bypass, constant result on the counts of the quantifier), sweep of every function read (and its in-repo callees) for frozen function-local statics, single precision inside double computations, lossy copy constructors, presence- or argument-keyed member caches, reference members bound to constructor arguments, loop accumulators that are members, members derived in the constructor and not refreshed by setters, results returned by reference to a member buffer, members filled from an argument under a condition that ignores it, hidden non-virtual base members, self-bound reference members, reductions that accumulate in float; closed-form tail read symbolically with the covariance as input on witness angles, early returns under tolerance tests; canonical (set, index-role) resolution of every point access in the mean/covariance loops (index- and range-for forms), path-wise size of the preconditioned set after allocate_ on witness sizes; def-use / must-pass-through on the instantiated AST (determinant correction reaches the stored rotation), structural pairing of covariance orientation with SVD factor order, sibling agreement of overloads'
EXPLANATION = ('Each estimate_/find overload of each of the eight instantiations is read as an ordered list of normalised statements; rules check the determinant '
               'correction idiom before the rotation store (last column, sign test), centroid map, covariance/factor pairing, preconditioning rescale and overload agreement.')
ASSUMPTIONS = ['Eigen::JacobiSVD returns singular values in descending order (the zero one of a coplanar set is last)',
               'preconditioning is an isotropic scale shared by the formula R(sp)+t\' = s(Rp + t\'/s)']
LEVEL_TEXT = ('Structure of the estimator decided for every input and point type: a reflection can never be returned because the stored rotation passes the determinant '
              'correction on every path; centroid map, covariance/factor pairing, preconditioning rescale and overload agreement are the ones the closed form requires.')
LEVEL_NOTE = 'Not decided: least-squares optimality numerics / 1e-9 recovery / rounding. Trusted: clang front end, extractor, Eigen SVD ordering.'


def events(f):
    """Program-order list of (kind, sexpr, node): decl / expr / if / for-start."""
    out = []

    def go(s, depth, guards):
        if s is None:
            return
        k = s['k']
        if k == 'Compound':
            for x in s['s']:
                go(x, depth, guards)
        elif k == 'Decl':
            for v in s['vars']:
                out.append(('decl', (v['name'], deep_unwrap(sx(v['init'])) if v.get('init') is not None else None), v, guards))
        elif k == 'Expr':
            out.append(('expr', deep_unwrap(sx(s['e'])), s, guards))
        elif k == 'Return':
            out.append(('return', deep_unwrap(sx(s['e'])) if s.get('e') is not None else None, s, guards))
        elif k == 'If':
            g = deep_unwrap(sx(s['c']))
            out.append(('if', g, s, guards))
            go(s.get('t'), depth + 1, guards + [(g, True, s)])
            go(s.get('e'), depth + 1, guards + [(g, False, s)])
        elif k == 'For':
            go(s.get('init'), depth, guards)
            go(s.get('b'), depth + 1, guards)
        elif k in ('While', 'Do', 'RangeFor'):
            go(s.get('b'), depth + 1, guards)
    go(f['body'], 0, [])
    return out


def loop_map(f):
    """id(statement node) -> descriptor of the innermost enclosing loop: ('for', var, sx init, sx cond, sx inc, {other init vars}) / ('range', var, sx range)."""
    out = {}

    def go(s, cur):
        if s is None:
            return
        k = s['k']
        if k == 'Compound':
            for x in s['s']:
                go(x, cur)
        elif k in ('Decl', 'Expr', 'Return'):
            out[id(s)] = cur
            if k == 'Decl':
                for v in s['vars']:
                    out[id(v)] = cur
        elif k == 'If':
            go(s.get('t'), cur)
            go(s.get('e'), cur)
        elif k == 'For':
            init = s.get('init')
            d = None
            if init is not None and init['k'] == 'Decl' and init['vars']:
                v0 = init['vars'][0]
                others = {v['name']: deep_unwrap(sx(v['init'])) for v in init['vars'][1:] if v.get('init') is not None}
                d = ('for', v0['name'], deep_unwrap(sx(v0['init'])) if v0.get('init') is not None else None, deep_unwrap(sx(s['c'])) if s.get('c') else None,
                     deep_unwrap(sx(s['inc'])) if s.get('inc') else None, others)
            go(s.get('b'), d or ('?',))
        elif k == 'RangeFor':
            go(s.get('b'), ('range', s['var']['name'], deep_unwrap(sx(s['range']))))
        elif k in ('While', 'Do'):
            go(s.get('b'), ('?',))
    go(f['body'], None)
    return out


def full_index_loop(lp, listname):
    """the loop variable if lp runs an index over all of `listname` (0 .. size, ++)"""
    if lp is None or lp[0] != 'for':
        return None
    _, var, init, cond, inc, others = lp
    size = ('.size', listname)
    bound_ok = isinstance(cond, tuple) and cond[0] == '<' and cond[1] == var and (cond[2] == size or others.get(cond[2]) == size)
    if init == 0 and bound_ok and inc in (('u++', var), ('++u', var), ('++', var)):
        return var
    return None


def canonical_access(ev, i, acc, loops, listname='correspondences'):
    """acc = ('[]', set, index) at event i  ->  (set, role) with role 'S' (source index of the current correspondence), 'T' (target index),
    'N' (the loop counter itself), '?' (not resolved).  Locals are resolved to the nearest preceding declaration."""
    if not (isinstance(acc, tuple) and len(acc) == 3 and acc[0] == '[]' and isinstance(acc[1], str)):
        return (None, '?')
    lp = loops.get(id(ev[i][2]))

    def local_def(name):
        for j in range(i - 1, -1, -1):
            if ev[j][0] == 'decl' and ev[j][1][0] == name:
                return ev[j][1][1]
        return None
    idx = acc[2]
    for _ in range(3):
        if isinstance(idx, str) and local_def(idx) is not None:
            idx = local_def(idx)
    role = '?'
    n = full_index_loop(lp, listname)
    if n is not None:
        if idx == n:
            role = 'N'
        elif idx == ('.member:sourcePointIndex', ('[]', listname, n)):
            role = 'S'
        elif idx == ('.member:targetPointIndex', ('[]', listname, n)):
            role = 'T'
    elif lp is not None and lp[0] == 'range' and lp[2] == listname:
        v = lp[1]
        if idx in (v + '.sourcePointIndex', ('.member:sourcePointIndex', v)):
            role = 'S'
        elif idx in (v + '.targetPointIndex', ('.member:targetPointIndex', v)):
            role = 'T'
    return (acc[1], role)


def contains(s, needle):
    if s == needle:
        return True
    if isinstance(s, tuple):
        return any(contains(x, needle) for x in s)
    return False


def names_in(s, acc=None):
    acc = set() if acc is None else acc
    if isinstance(s, str):
        acc.add(s)
    elif isinstance(s, tuple):
        for x in s[1:]:
            names_in(x, acc)
    return acc


def cdim(f, fx):
    for x in walk(f['body']):
        if x.get('k') == 'Ref' and x.get('name') == 'CARTESIAN_DIM' and 'cv' in x:
            return x['cv']
    return None


def run(fx, R, tier):
    classes = sorted({f['cls'] for f in fx.functions.values() if f.get('cls', '').startswith('romea::core::FindRigidTransformationBySVD<')})
    R.check(len(classes) == 8, 'V6', 'FindRigidTransformationBySVD:instantiations', 'only %d of the 8 point types are instantiated: %s' % (len(classes), [short_fn(c) for c in classes]),
            '8 explicit instantiations', None, 'E-WIT')
    R.floor('V1', 16)
    for cq in classes:
        cname = short_fn(cq)
        ests = sorted(fx.fn(cq + '::estimate_'), key=lambda f: len(f['params']))
        if len(ests) != 2:
            R.undecided('V1', cname, '%d estimate_ overloads found (2 expected)' % len(ests))
            continue
        tails = []
        for f in ests:
            R.used(f)
            tag = 'aligned' if len(f['params']) == 2 else 'indexed'
            v9 = homogeneous_tail(fx, R, cq, cname, f, tag)
            tails.append(check_estimate(fx, R, cname, f, tag, v9))
        if all(t is not None for t in tails):
            R.form(tails[0] == tails[1], 'V5', '%s::estimate_:overload-agreement' % cname,
                   'the two estimate_ overloads are written differently after the covariance loop (%s vs %s); each is decided on its own by V1-V3' % (first_diff(tails[0], tails[1])),
                   'identical SVD / correction / rotation / translation statements', fx.rel(ests[0]['loc']), 'E-SIB')
        check_find(fx, R, cq, cname)
    check_preconditioned_set(fx, R)


def scaled_w(fx, cq):
    """True when PreconditionedPointSet<same point type>::compute(points, scale) multiplies the WHOLE stored point by the scalar (so a homogeneous
    point leaves it with w = scale), False when it provably keeps w (uses a per-component array / only the Cartesian head), None when not readable."""
    pt = cq[cq.index('<') + 1:-1]
    g = [h for h in fx.fn('romea::core::PreconditionedPointSet<%s>::compute' % pt) if len(h['params']) == 2 and 'Preconditioner' not in h['params'][1]['t'].get('s', '')]
    if len(g) != 1:
        return None
    g = g[0]
    pname, sname = g['params'][0]['name'], g['params'][1]['name']
    st = [e for e in events(g) if e[0] == 'expr' and isinstance(e[1], tuple) and e[1][0] == '=' and contains(e[1][1], 'this.points_')]
    if len(st) != 1:
        return None
    rhs = st[0][1][2]
    whole = [('*', ('.array', ('[]', pname, '$N')), sname), ('*', sname, ('.array', ('[]', pname, '$N'))), ('*', ('[]', pname, '$N'), sname), ('*', sname, ('[]', pname, '$N'))]
    if any(m(w_, rhs, {}) for w_ in whole):
        return True
    return None


def homogeneous_tail(fx, R, cq, cname, f, tag):
    """V9: the statements from the declaration of the returned matrix to the return are read with symbolic SVD factors and means.  For a
    homogeneous point type the means carry the homogeneous coordinate w of the points (1 for plain sets; the scale for sets preconditioned by
    the scale-only compute(), when that function multiplies the whole point).  The result must be [[R, targetMean - R sourceMean], [0, 1]]."""
    from .. import mat, alg
    inst = 'FindRigidTransformationBySVD::estimate_/%s:homogeneous-form [%s]' % (tag, cname)
    D = cdim(f, fx)
    body = f.get('body')
    if D is None or body is None or body.get('k') != 'Compound':
        R.undecided('V9', inst, 'body not readable')
        return
    top = body['s']
    hi = None
    for i_, x in enumerate(top):
        if x.get('k') == 'Decl' and any(mat.dims_of(v['t'].get('s', '')) == (D + 1, D + 1) for v in x['vars']):
            hi = i_
    if hi is None:
        R.undecided('V9', inst, 'no top-level declaration of a %dx%d matrix' % (D + 1, D + 1))
        return
    sw = scaled_w(fx, cq)
    st0 = sym.State()
    P = None
    means = {}
    for x in top[:hi]:
        if x.get('k') != 'Decl':
            continue
        for v in x['vars']:
            ts = v['t'].get('s', '')
            d = mat.dims_of(ts)
            if d is None and '-1, -1' in ts:
                d = (D, D)
            if d is None:
                continue
            if d[1] == 1 and v['name'] in ('sourceMean', 'targetMean'):
                P = d[0]
                means[v['name']] = v['id']
            else:
                st0.locals[v['id']] = sp.ImmutableMatrix(d[0], d[1], lambda i, j, n_=v['name']: sp.Symbol('%s%d%d' % (n_, i, j), real=True))
    if set(means) != {'sourceMean', 'targetMean'} or P not in (D, D + 1):
        R.undecided('V9', inst, 'sourceMean / targetMean not declared before the result matrix')
        return
    w = sp.Symbol('w', positive=True) if (P > D and sw) else sp.Integer(1)
    ms = sp.ImmutableMatrix(P, 1, lambda i, j: sp.Symbol('ms%d' % i, real=True) if i < D else w)
    mt = sp.ImmutableMatrix(P, 1, lambda i, j: sp.Symbol('mt%d' % i, real=True) if i < D else w)
    st0.locals[means['sourceMean']] = ms
    st0.locals[means['targetMean']] = mt
    rd = sym.Reader(fx, call_hook=mat.hook, member_hook=mat.member_hook)
    ctx = {'this': ('this',), 'fn': f, 'depth': 0}
    try:
        states = [st0]
        for x in top[hi:]:
            nxt = []
            for s_ in states:
                nxt += rd.ex(x, s_, ctx) if s_.ret is None else [s_]
            states = nxt
    except sym.Unsupported as u:
        R.undecided('V9', inst, 'tail not interpretable: %s' % u)
        return
    loc = fx.rel(top[hi]['loc'])
    for st in states:
        H = st.ret
        if not isinstance(H, sp.MatrixBase) or H.shape != (D + 1, D + 1):
            R.undecided('V9', inst, 'returned value not readable as a %dx%d matrix' % (D + 1, D + 1))
            return
        Rb = sp.Matrix(H[:D, :D])
        want_t = sp.Matrix(mt[:D, 0]) - Rb * sp.Matrix(ms[:D, 0])
        checks = [('translation column', sp.Matrix(H[:D, D]) - want_t, 'targetMean - R*sourceMean (Cartesian parts, R the rotation block it stores)'),
                  ('bottom row', sp.Matrix(H[D, :D]), 'zero'), ('bottom-right entry', sp.Matrix([H[D, D] - 1]), '1')]
        for (what, resid, want) in checks:
            v = alg.decide_zero(resid)
            if v[0] == 'nonzero':
                R.violated('V9', 'FindRigidTransformationBySVD::estimate_/%s:homogeneous-form:%s' % (tag, what.replace(' ', '-')),
                           'the %s of the returned matrix is %s, not %s (differs by %s at %s)%s: the result is not the homogeneous matrix of the rigid motion [%s]' % (
                               what, str((sp.Matrix(H[:D, D]) if what.startswith('tr') else sp.Matrix(H[D, :])).T.tolist())[:160], want, v[2], alg.witness_text(v[1])[:120],
                               '; w is the homogeneous coordinate of the points - PreconditionedPointSet::compute(points, scale) multiplies the whole point by the scale, so sets preconditioned that way '
                               'have w = scale, and the property says the result is unchanged by isotropic preconditioning and by the point representation' if w != 1 and any(x_ == w for x_ in resid.free_symbols) else '',
                               cname), loc, 'E-ALG')
                return False
            if v[0] != 'zero':
                R.undecided('V9', inst, '%s not decided: %s' % (what, v[1]))
                return
    R.holds('V9', inst, '[[R, targetMean - R sourceMean], [0, 1]] for symbolic factors and means%s' % (' with homogeneous coordinate w (any scale)' if w != 1 else ''), loc, 'E-ALG')
    return True


def first_diff(a, b):
    for x, y in zip(a, b):
        if x != y:
            return x, y
    return (len(a), len(b))


def check_bypass(fx, R, cname, f, tag):
    """V10: a path of the indexed overload that returns before the accumulation loops must have consulted the pairs.  Returns True when such a
    path was reported (VIOLATED or UNDECIDED), so that the statement-form rules do not mis-word it."""
    from .. import earlyexit
    inst = 'FindRigidTransformationBySVD::estimate_/%s:bypass' % tag
    top = f['body']['s'] if f.get('body') and f['body'].get('k') == 'Compound' else []
    li = next((i_ for i_, x in enumerate(top) if x.get('k') in ('For', 'RangeFor', 'While')), None)
    if li is None:
        return False
    exits = earlyexit.exits_before(top, li)
    if not exits:
        R.holds('V10', inst + ' [%s]' % cname, 'no return before the accumulation loops', fx.rel(f['loc']), 'E-STATE')
        return False
    lname = next((p['name'] for p in f['params'] if 'Correspondence' in p['t'].get('s', '')), None)
    for (node, ctext, tol) in exits:
        reads_pairs = lname is not None and any(y.get('k') in ('Op', 'Index', 'RangeFor') and (lname + '[') in pp(y) for y in walk(node['c']))
        rets = [y for y in walk(node.get('t')) if y.get('k') == 'Return' and y.get('e') is not None]
        delegates = [y for y in rets for z in walk(y['e']) if z.get('k') in ('MCall', 'Call') and (z.get('m') == 'estimate_' or (z.get('fn') or '').endswith('::estimate_')) and len(z.get('args', [])) == 2]
        if tag == 'indexed' and delegates and not reads_pairs and not any(y.get('k') in ('For', 'RangeFor', 'While') for y in walk(node.get('t'))):
            R.violated('V10', inst, 'when `%s` the indexed overload returns the result of the aligned overload, which pairs point n with point n: the condition looks only at sizes and never at the '
                       'entries of `%s`, so a list of that length that pairs the points differently (a permutation, which the property names: every correspondence order / pairing) is ignored and '
                       'the motion of the identity pairing is returned [%s]' % (ctext, lname, cname), fx.rel(node['loc']), 'E-STATE')
        else:
            # a return of a value that does not depend on the points, under a condition on the number of points / pairs: decided by evaluating the
            # condition for the counts of the quantifier (3..500)
            const_ret = rets and all(not any(isinstance(z, dict) and z.get('k') == 'Ref' and z.get('rk') in ('param', 'local') for z in walk(y['e'])) for y in rets)
            hit = None
            if const_ret:
                from .. import mini
                D_ = cdim(f, fx)
                for n_ in (3, 4, 5, 6, 10, 500):
                    env = {('.size', p['name']): n_ for p in f['params']}
                    env.update({'CARTESIAN_DIM': D_, 'this.CARTESIAN_DIM': D_})
                    try:
                        def rep(t):
                            t = deep_unwrap(t)
                            def go(x):
                                if isinstance(x, tuple) and len(x) == 2 and x[0] == '.size' and isinstance(x[1], str):
                                    return 'size:' + x[1]
                                if isinstance(x, tuple):
                                    return tuple(go(y_) for y_ in x)
                                return x
                            return go(t)
                        env2 = {'size:' + p['name']: n_ for p in f['params']}
                        env2.update({'CARTESIAN_DIM': D_, 'this.CARTESIAN_DIM': D_, 'POINT_SIZE': D_})
                        if mini.Step(rep).ev(rep(sx(node['c'])), env2):
                            hit = hit or n_
                    except mini.Unsupported:
                        hit = None
                        break
            if const_ret and hit is not None:
                R.violated('V10', inst + ':constant', 'when `%s` - true for %d points in %d-D, inside the quantifier (3..500 points, coplanar sets included) - the estimator returns %s, a value that does not depend '
                           'on the points: the rigid motion of %d non-collinear points is determined, and it is not recovered [%s]' % (ctext, hit, cdim(f, fx), pp(rets[0]['e'])[:60], hit, cname),
                           fx.rel(node['loc']), 'E-STEP')
            else:
                R.undecided('V10', inst + ' [%s]' % cname, 'returns before the accumulation loops when `%s`; whether that path is equivalent for every correspondence list is not decided' % ctext)
    return True


def check_guards_and_scalings(fx, R, cname, f, tag):
    """V11: (a) the store of the rotation block into the result is unconditional - a guard on the singular values that is a tolerance test skips it for non-collinear sets; (b) a covariance rescaled in place
    before the decomposition must be divided / multiplied by a quantity that is positive for every input (a cross-covariance has no sign: its largest signed entry can be negative).  True when a violation was reported."""
    from .. import earlyexit
    inst = 'FindRigidTransformationBySVD::estimate_/%s' % tag
    reported = False

    def visit(node, guards):
        nonlocal reported
        if not isinstance(node, dict):
            return
        k = node.get('k')
        if k == 'Compound':
            for x in node['s']:
                visit(x, guards)
            return
        if k == 'If':
            visit(node.get('t'), guards + [(node, True)])
            visit(node.get('e'), guards + [(node, False)])
            return
        if k in ('For', 'While', 'RangeFor', 'Do'):
            visit(node.get('b'), guards)
            return
        if k != 'Expr':
            return
        t = deep_unwrap(sx(node['e']))
        if isinstance(t, tuple) and len(t) == 3 and t[0] == '=' and isinstance(t[1], tuple) and t[1][0] == '.block' and t[1][2:4] == (0, 0) and 'CARTESIAN_DIM' in str(t[1][4:]) \
                and any(n_ in str(t[2]) for n_ in ('matrixU', 'matrixV', "'u'", "'v'")) and guards:
            g, pol = guards[-1]
            ctext = pp(g['c'])
            sing = 'singularValues' in ctext
            tol = earlyexit.is_tolerance_test(g['c']) or ('a comparison of one singular value with a constant multiple of another' if sing and re.search(r'\b\d(\.\d*)?e-\d+|0\.0+\d', ctext) else None)
            if tol and sing:
                reported = True
                R.violated('V11', inst + ':rotation-store:guarded', 'the rotation block of the result is written only when `%s` (%s); otherwise it keeps the identity the result was initialised with.  The singular values of the '
                           'covariance are VARIANCES along the principal axes: a ratio below the constant is reached by thin but not collinear sets (a width-to-length ratio of the square root of the constant), for which the '
                           'statement still demands the exact motion - those sets come back with no rotation at all [%s]' % (ctext[:140], tol, cname), fx.rel(g['loc']), 'E-STATE')
            elif guards:
                R.undecided('V11', inst + ':rotation-store:guarded', 'the rotation block of the result is written under `%s`; whether the condition can fail for non-collinear sets is not decided' % ctext[:140])
        # in-place scaling of the covariance
        if isinstance(t, tuple) and len(t) == 3 and t[0] in ('/=', '*=') and t[1] in ('cov', 'covariance', 'this.covariance_', 'this.cov_'):
            q = t[2]
            qs = str(q)
            positive = any(n_ in qs for n_ in ("'.norm'", "'.squaredNorm'", "'.lpNorm'", "'.size'", 'numberOf')) or ("'.maxCoeff'" in qs and ("'.cwiseAbs'" in qs or "'.abs'" in qs)) or isinstance(q, (int, float)) and q > 0
            signed = ("'.maxCoeff'" in qs or "'.minCoeff'" in qs or "'.sum'" in qs or "'.trace'" in qs or "'.mean'" in qs or "'()'" in qs) and not positive
            if signed:
                reported = True
                R.violated('V11', inst + ':covariance-scaling:signed', 'the covariance is rescaled in place by `%s` before the decomposition.  The cross-covariance of two centred sets has no sign: for a rotation close to a '
                           'half turn of an elongated cloud every entry of its Cartesian block is negative, so this SIGNED quantity is negative, the covariance changes sign and the factors U, V of -C are not those of C '
                           '(in 3D the reflection correction then fires on a regular input): the returned matrix is a proper rotation, but of another motion.  Only a quantity that is positive for every input (a norm, '
                           'the largest ABSOLUTE entry) leaves the rotation unchanged [%s]' % (pp(node['e'])[:120], cname), fx.rel(node['loc']), 'E-ALG')
            elif not positive:
                R.undecided('V11', inst + ':covariance-scaling', 'the covariance is rescaled in place by `%s`; positivity of that quantity is not decided' % pp(node['e'])[:120])
            else:
                R.holds('V11', inst + ':covariance-scaling', 'rescaled by a quantity that is positive for every input', fx.rel(node['loc']), 'E-ALG')
    visit(f.get('body'), [])
    # V12: `X.noalias() (+)= ... A * b ...` promises Eigen that X does not overlap the operands of the product; it then evaluates the product straight into X.  When X and an operand are views of the SAME
    # matrix whose regions (constant block arguments of this instantiation) intersect, the product reads coefficients the statement has already overwritten.
    def view_of(n):
        n = strip_casts(n)
        region = None
        chain = []
        for _ in range(6):
            if n.get('k') == 'MCall' and n.get('m') in ('noalias', 'array', 'matrix', 'eval', 'derived', 'transpose'):
                chain.append(n['m'])
                n = strip_casts(n['obj'])
            elif n.get('k') == 'MCall' and n.get('m') in ('block', 'topLeftCorner', 'col', 'row', 'head', 'segment') and region is None:
                cv = [const_value(a_) for a_ in n.get('args', [])]
                if n['m'] == 'block' and len(cv) == 4 and None not in cv:
                    region = (int(cv[0]), int(cv[1]), int(cv[2]), int(cv[3]))
                elif n['m'] == 'col' and len(cv) == 1 and cv[0] is not None:
                    region = (0, int(cv[0]), 10 ** 6, 1)
                elif n['m'] == 'row' and len(cv) == 1 and cv[0] is not None:
                    region = (int(cv[0]), 0, 1, 10 ** 6)
                elif n['m'] == 'topLeftCorner' and len(cv) == 2 and None not in cv:
                    region = (0, 0, int(cv[0]), int(cv[1]))
                else:
                    region = 'unknown'
                n = strip_casts(n['obj'])
            else:
                break
        if n.get('k') in ('Ref', 'Member'):
            return (n.get('id') or n.get('name'), region if region is not None else (0, 0, 10 ** 6, 10 ** 6), 'noalias' in chain)
        return None

    def overlap(a, b):
        if a == 'unknown' or b == 'unknown':
            return None
        return a[0] < b[0] + b[2] and b[0] < a[0] + a[2] and a[1] < b[1] + b[3] and b[1] < a[1] + a[3]
    for y in walk(f.get('body')):
        if not ((y.get('k') == 'Bin' and y.get('op') in ('=', '+=', '-=')) or (y.get('k') == 'Op' and y.get('op') in ('=', '+=', '-=') and len(y.get('args', [])) == 2)):
            continue
        l_, r_ = (y['l'], y['r']) if y.get('k') == 'Bin' else (y['args'][0], y['args'][1])
        lv = view_of(l_)
        if lv is None or not lv[2]:
            continue
        hit = None
        for z in walk(r_):
            if isinstance(z, dict) and ((z.get('k') == 'Bin' and z.get('op') == '*') or (z.get('k') == 'Op' and z.get('op') == '*' and len(z.get('args', [])) == 2)):
                for opnd in ((z['l'], z['r']) if z.get('k') == 'Bin' else z['args']):
                    ov = view_of(opnd)
                    if ov is not None and ov[0] == lv[0]:
                        o_ = overlap(lv[1], ov[1])
                        if o_ is True:
                            hit = ('violated', opnd)
                        elif o_ is None and hit is None:
                            hit = ('undecided', opnd)
        if hit and hit[0] == 'violated':
            reported = True
            R.violated('V12', inst + ':noalias-overlap', '`%s` is marked noalias(), but the product on its right-hand side reads `%s`, a view of the same matrix whose region overlaps the destination for this point type '
                       '(destination %s, operand %s as row, column, rows, columns): Eigen then evaluates the product straight into the destination, so it reads coefficients this very statement has already changed - '
                       'for the homogeneous point types the translation column comes out as -R*sourceMean instead of targetMean - R*sourceMean [%s]' % (
                           pp(l_)[:70], pp(hit[1])[:70], lv[1], view_of(hit[1])[1], cname), fx.rel(y.get('loc') or f['loc']), 'E-STATE')
        elif hit:
            R.undecided('V12', inst + ':noalias-overlap', '`%s` is marked noalias() and a product operand is a view of the same matrix; the regions are not constant' % pp(l_)[:70])
    return reported


def check_estimate(fx, R, cname, f, tag, v9=None):
    inst = 'FindRigidTransformationBySVD::estimate_/%s' % tag
    ptag = ' [%s]' % cname
    ev = events(f)
    bypass = check_bypass(fx, R, cname, f, tag)
    if check_guards_and_scalings(fx, R, cname, f, tag):
        return None
    D = cdim(f, fx)
    # ---- locate the anchors ---------------------------------------------
    rot = [i for i, e in enumerate(ev) if e[0] == 'expr' and m(('=', ('.block', '$H', 0, 0, 'CARTESIAN_DIM', 'CARTESIAN_DIM'), '$RHS'), e[1], {})]
    tail_verdict = closed_form_tail(fx, R, f, inst, D) if D is not None else None
    if tail_verdict == 'violated':
        return None
    if (len(rot) != 1 or D is None) and tail_verdict == 'holds':
        return None
    if len(rot) != 1 or D is None:
        um = [e for e in ev if contains(e[1], 'Eigen::umeyama')]
        if um:
            # Eigen::umeyama(src, dst, with_scaling = true): by default it returns the SIMILARITY c R | t; the rigid motion needs with_scaling = false
            calls_ = [y for y in walk(f['body']) if y.get('k') == 'Call' and (y.get('fn') or '').startswith('Eigen::umeyama')]
            rigid = None
            for c_ in calls_:
                a_ = c_.get('args', [])
                third = a_[2] if len(a_) >= 3 else None
                is_default = third is None or third.get('k') == 'DefaultArg'
                cv_ = const_value(third) if third is not None else None
                if third is not None and third.get('k') == 'DefaultArg':
                    cv_ = const_value(third.get('e')) if third.get('e') is not None else True
                rigid = (cv_ in (False, 0)) if not is_default or cv_ is not None else False
                if is_default and cv_ is None:
                    rigid = False
            if rigid:
                R.holds('V1', inst, 'delegates to Eigen::umeyama with scaling disabled (handles reflections)', fx.rel(f['loc']), 'E-STATE')
            elif rigid is False:
                R.violated('V1', inst + ':similarity', 'the motion is delegated to Eigen::umeyama(source, target) with its third parameter left at the default, with_scaling = true: that function then returns the '
                           'similarity c*R | t that minimises the squared error, with a scale factor c fitted to the data.  For exactly rigid data c is 1 to rounding, but for noisy correspondences c != 1: the linear '
                           'part is not orthonormal (det = c^DIM) and the result is not the least-squares optimal RIGID motion [%s]' % cname, fx.rel(f['loc']), 'E-STATE')
            else:
                R.undecided('V1', inst, 'delegates to Eigen::umeyama; the value of with_scaling is not readable')
            return None
        R.undecided('V1', inst, 'rotation-block assignment `H.block(0,0,D,D) = ...` not found exactly once')
        return None
    ri = rot[0]
    b = {}
    m(('=', ('.block', '$H', 0, 0, 'CARTESIAN_DIM', 'CARTESIAN_DIM'), '$RHS'), ev[ri][1], b)
    H, rhs = b['$H'], b['$RHS']
    decls = {e[1][0]: (i, e[1][1]) for i, e in enumerate(ev) if e[0] == 'decl'}
    # SVD factors
    svd = [(n, d) for n, (i, d) in decls.items() if isinstance(d, tuple) and isinstance(d[0], str) and d[0].startswith('new:Eigen::JacobiSVD')]
    if len(svd) != 1:
        R.undecided('V3', inst, 'JacobiSVD declaration not found')
        return None
    svdname, svddef = svd[0]
    defs = {n: d for n, (i, d) in decls.items()}

    def expand(x, depth=0):
        if isinstance(x, str) and x in defs and defs[x] is not None and depth < 6 and x not in (svdname,):
            return expand(defs[x], depth + 1)
        if isinstance(x, tuple):
            return tuple(expand(y, depth + 1) if i else y for i, y in enumerate(x))
        return x
    MU, MV = ('.matrixU', svdname), ('.matrixV', svdname)
    rhs_x = expand(rhs)
    u, v = MU, MV
    # names that denote a factor / the product
    factor_names = {n for n in defs if expand(n) in (MU, MV)}
    product_names = {n for n in defs if contains(expand(n), MU) and contains(expand(n), MV)}
    # ---- V3 ----------------------------------------------------------------
    covs = [(i, e) for i, e in enumerate(ev) if e[0] == 'expr' and m(('+=', '$C', ('*', ('-', '$P1', '$M1'), ('.transpose', ('-', '$P2', '$M2')))), e[1], {})]
    # weighted sums: a mean accumulated as sum w_n p_n is a centroid only when divided by sum w_n (for exact data y = R x + t the centred targets are R (centred sources) + t (1 - W/N))
    wacc = []
    for e_ in ev:
        if e_[0] == 'expr' and isinstance(e_[1], tuple) and len(e_[1]) == 3 and e_[1][0] == '+=' and e_[1][1] in ('sourceMean', 'targetMean') and isinstance(e_[1][2], tuple) and e_[1][2][0] == '*' and len(e_[1][2]) == 3:
            ops_ = [o_ for o_ in e_[1][2][1:] if not (contains(o_, 'sourcePoints') or contains(o_, 'targetPoints'))]
            if len(ops_) == 1 and not isinstance(ops_[0], (int, float)):
                wacc.append((e_[1][1], ops_[0], expand(ops_[0])))
    if wacc:
        divs_ = {e_[1][1]: e_[1][2] for e_ in ev if e_[0] == 'expr' and isinstance(e_[1], tuple) and len(e_[1]) == 3 and e_[1][0] == '/=' and e_[1][1] in ('sourceMean', 'targetMean')}
        wsums = {e_[1][1] for e_ in ev if e_[0] == 'expr' and isinstance(e_[1], tuple) and len(e_[1]) == 3 and e_[1][0] == '+=' and isinstance(e_[1][1], str)
                 and any(e_[1][2] == w_[1] or expand(e_[1][2]) == w_[2] for w_ in wacc)}
        for (mn_, wname, wdef) in wacc:
            d_ = divs_.get(mn_)
            if d_ is None:
                continue
            dx = expand(d_)
            by_count = contains(dx, '.size') or (isinstance(dx, str) and 'umberOf' in dx)
            by_wsum = any(contains(d_, ws_) for ws_ in wsums)
            if by_count and not by_wsum:
                R.violated('V2', inst + ':weighted-means', '%s accumulates the points multiplied by `%s` (%s) but is divided by `%s`, the number of correspondences, not the sum of those factors: it is the centroid only '
                           'when every factor is 1.  For exact data target = R source + t the centred targets are then R (centred sources) + t (1 - W/N): rotation and translation come out wrong for every list '
                           'whose weights do not sum to its length (the result is still a proper rotation)%s' % (mn_, wname, str(wdef)[:80], pp_s(d_) if isinstance(d_, tuple) else d_, ptag), fx.rel(f['loc']), 'E-ALG')
                return None
    if len(covs) != 1:
        R.undecided('V3', inst, 'cross-covariance accumulation not recognised')
        return None
    cb = {}
    m(('+=', '$C', ('*', ('-', '$P1', '$M1'), ('.transpose', ('-', '$P2', '$M2')))), covs[0][1][1], cb)
    role1 = 'source' if contains(cb['$P1'], 'sourcePoints') else 'target' if contains(cb['$P1'], 'targetPoints') else '?'
    role2 = 'source' if contains(cb['$P2'], 'sourcePoints') else 'target' if contains(cb['$P2'], 'targetPoints') else '?'
    means_ok = (cb['$M1'], cb['$M2']) == (role1 + 'Mean', role2 + 'Mean')
    known_means = {cb['$M1'], cb['$M2']} <= {'sourceMean', 'targetMean'} and {role1, role2} <= {'source', 'target'}
    R.form(means_ok and {role1, role2} == {'source', 'target'}, 'V3', inst + ':centering',
           'covariance term (%s - %s)(%s - %s)^T not in the enumerated form' % (cb['$P1'], cb['$M1'], cb['$P2'], cb['$M2']),
           'each set centred on its own mean', fx.rel(covs[0][1][2]['loc']), 'E-SIB',
           facts=[(known_means and not means_ok, 'covariance term is (%s - %s)(%s - %s)^T: a set is centred on the mean of the other set' % (cb['$P1'], cb['$M1'], cb['$P2'], cb['$M2'])),
                  (known_means and role1 == role2, 'covariance term is (%s - %s)(%s - %s)^T: both factors come from the %s set' % (cb['$P1'], cb['$M1'], cb['$P2'], cb['$M2'], role1))])
    on_block = contains(svddef, ('.block', cb['$C'], 0, 0, 'CARTESIAN_DIM', 'CARTESIAN_DIM'))
    R.form(on_block, 'V3', inst + ':svd-input', 'the SVD input %s is not the enumerated cov.block(0,0,D,D)' % (svddef,), 'SVD of cov.block(0,0,D,D)', fx.rel(f['loc']), 'E-SIB',
           facts=[(not contains(svddef, cb['$C']), 'the SVD is taken of %s, which does not involve the accumulated covariance %s' % (svddef, cb['$C']))])
    form = None
    core = rhs_x
    if m(('*', v, ('.transpose', u)), core, {}):
        form = 'V*U^T'
    elif m(('*', u, ('.transpose', v)), core, {}):
        form = 'U*V^T'
    elif m(('*', ('*', v, '$D'), ('.transpose', u)), core, {}):
        form = 'V*D*U^T'
    elif m(('*', ('*', u, '$D'), ('.transpose', v)), core, {}):
        form = 'U*D*V^T'
    if form is None:
        R.undecided('V3', inst + ':pairing', 'rotation expression %s is not a product of the SVD factors' % (rhs,))
    else:
        want = 'V' if role1 == 'source' else 'U'
        R.check(form.startswith(want), 'V3', inst + ':pairing',
                'covariance is sum (%s)(%s)^T but the rotation is %s: this is the inverse rotation (needs %s first)' % (role1, role2, form, want),
                'sum (%s)(%s)^T pairs with %s' % (role1, role2, form), fx.rel(ev[ri][2]['loc']), 'E-SIB')
    # ---- V1 ----------------------------------------------------------------
    ok, why, loc = reflection_handled(ev, ri, factor_names, product_names | {H}, rhs, rhs_x, D, decls, expand, MU, MV)
    if ok is None:
        R.undecided('V1', inst, why)
    else:
        R.check(ok, 'V1', inst, why + ptag, why + ptag, fx.rel(loc or ev[ri][2]['loc']), 'E-STATE')
    # ---- V2 ----------------------------------------------------------------
    hdecl = decls.get(H)
    ident = hdecl is not None and contains(hdecl[1], ('Eigen::MatrixBase<%s>::Identity' % '',)) or (hdecl is not None and 'Identity' in str(hdecl[1]))
    R.form(bool(ident) or v9 is True, 'V2', inst + ':identity', 'H is not declared as Identity(): %s' % (hdecl,), 'H starts as identity', fx.rel(f['loc']), 'E-ALG',
           facts=[(hdecl is not None and 'Zero' in str(hdecl[1]) and not any(contains(e[1], '.setIdentity') for e in ev), 'H starts as Zero() and is never set to the identity: the homogeneous row of the result is 0')])
    tr = [e for e in ev[ri + 1:] if e[0] == 'expr' and isinstance(e[1], tuple) and e[1][0] in ('+=', '=') and m(('.block', H, 0, 'CARTESIAN_DIM', '$R', 1), e[1][1], {})]
    okt = False
    if len(tr) == 1:
        e = tr[0][1]
        okt = m((e[0], ('.block', H, 0, 'CARTESIAN_DIM', '$R', 1), ('-', 'targetMean', ('*', ('.block', H, 0, 0, '$R', '$R'), 'sourceMean'))), e, {})
    tb = {}
    generic_t = len(tr) == 1 and m((tr[0][1][0], ('.block', H, 0, 'CARTESIAN_DIM', '$R', 1), ('-', '$A', ('*', ('.block', H, 0, 0, '$R', '$R'), '$B'))), tr[0][1], tb)
    R.form(okt or v9 is True, 'V2', inst + ':translation', 'translation column not in the enumerated form targetMean - R*sourceMean after the rotation store: %s' % ([t[1] for t in tr],),
           't = targetMean - R*sourceMean', fx.rel(tr[0][2]['loc']) if tr else fx.rel(f['loc']), 'E-ALG',
           facts=[(bool(generic_t) and {tb.get('$A'), tb.get('$B')} <= {'sourceMean', 'targetMean'} and (tb.get('$A'), tb.get('$B')) != ('targetMean', 'sourceMean'),
                   'translation column is %s - R*%s: the centroid map is targetMean - R*sourceMean (this is the translation of another motion)' % (tb.get('$A'), tb.get('$B'))),
                  (not tr and not any(contains(e[1], ('.block', H, 0, 'CARTESIAN_DIM')) or contains(e[1], '.translation') for e in ev[ri + 1:]), 'no statement after the rotation store writes the translation column')])
    # every accumulation loop visits every correspondence / point of the quantifier's sizes (3..500): the loop control is stepped on witness sizes
    from .C20 import loop_coverage
    cont_ = 'correspondences' if tag == 'indexed' else 'sourcePoints'
    sampled = False
    for L_ in [x for x in (f['body'].get('s') or []) if x.get('k') == 'For']:
        cov = loop_coverage(f, L_, cont=cont_, sizes=(3, 4, 7, 100, 255, 256, 257, 400, 500))
        if cov[0] == 'violated':
            sampled = True
            R.violated('V2', inst + ':loop-coverage', 'for %d %s the accumulation loop `for (%s; %s; %s)` visits the positions %s: %d of the %d never reach the means / the covariance, so the motion returned is not the '
                       'least-squares optimum over ALL correspondences (it disagrees with an independent Kabsch/Umeyama solution on noisy data, depends on their order and differs between the overloads); sets of '
                       '3..500 points are inside the quantifier' % (cov[1], 'correspondences' if tag == 'indexed' else 'points', cov[2], cov[3], cov[4], cov[5], cov[6], cov[1]), fx.rel(L_['loc']), 'E-STEP')
            break
    if sampled:
        return
    # means
    loops = loop_map(f)
    if tag == 'indexed':
        accs = [(i, e[1][1], canonical_access(ev, i, e[1][2], loops)) for i, e in enumerate(ev) if e[0] == 'expr' and isinstance(e[1], tuple) and len(e[1]) == 3 and e[1][0] == '+='
                and e[1][1] in ('sourceMean', 'targetMean')]
        divs = {e[1][1]: e[1][2] for e in ev if e[0] == 'expr' and isinstance(e[1], tuple) and len(e[1]) == 3 and e[1][0] == '/=' and e[1][1] in ('sourceMean', 'targetMean')}
        expected = {'sourceMean': ('sourcePoints', 'S'), 'targetMean': ('targetPoints', 'T')}
        wrong = [(mn, ca) for (_, mn, ca) in accs if ca[0] in ('sourcePoints', 'targetPoints') and ca[1] in ('S', 'T', 'N') and ca != expected[mn]]
        names_acc = sorted(mn for (_, mn, _) in accs)
        if wrong:
            roles = {'S': 'the source index of the current correspondence', 'T': 'the target index of the current correspondence', 'N': 'the position in the list (not an index of the correspondence)'}
            R.violated('V2', inst + ':means', '%s accumulates %s[%s]; the centroid of the corresponded %s points needs %s[%s] - with a subset or permuted correspondence list the '
                       'translation targetMean - R*sourceMean is then that of other points' % (
                           wrong[0][0], wrong[0][1][0], roles[wrong[0][1][1]], wrong[0][0][:6], expected[wrong[0][0]][0], roles[expected[wrong[0][0]][1]]), fx.rel(f['loc']), 'E-SIB')
        elif names_acc == ['sourceMean', 'targetMean'] and all(ca == expected[mn] for (_, mn, ca) in accs) and \
                all(divs.get(k) in (('.size', 'correspondences'),) for k in ('sourceMean', 'targetMean')):
            R.holds('V2', inst + ':means', 'means over the correspondence list, roles not swapped', fx.rel(f['loc']), 'E-SIB')
        elif not accs and all(isinstance((decls.get(mn_) or (None, None))[1], tuple) and (decls.get(mn_) or (None, None))[1][0] == 'mean' and (decls.get(mn_) or (None, None))[1][1:] in (('sourcePoints',), ('targetPoints',))
                              for mn_ in ('sourceMean', 'targetMean')):
            R.violated('V2', inst + ':means:whole-sets', 'the overload that takes a correspondence list centres on %s and %s, the centroids of the WHOLE point sets, not of the points the list names.  For a list that is '
                       'a proper subset (or repeats points) the centred pairs are no longer centred: exact data still comes out right, but for noisy correspondences the rotation that maximises trace(R^T C) '
                       'with that C is not the least-squares optimal motion of the listed pairs (it disagrees with Kabsch / Umeyama on the same pairs)%s' % (
                           pp_s(decls['sourceMean'][1]), pp_s(decls['targetMean'][1]), ptag), fx.rel(f['loc']), 'E-ALG')
        else:
            verdict = one_pass_invariant(fx, f)
            if verdict is None:
                R.undecided('V2', inst + ':means', 'mean/covariance accumulation idiom not recognised (two-pass sums over the correspondence list expected): accumulations %s, divisions %s' % (
                    [(mn, ca) for (_, mn, ca) in accs], divs))
            elif verdict[0]:
                R.holds('V2', inst + ':means', 'one-pass recurrence preserves mean = S/n and cov = S_xy - S_x S_y / n (loop invariant, exact algebra)', fx.rel(f['loc']), 'E-ALG')
            else:
                R.violated('V2', inst + ':one-pass-recurrence', 'the one-pass mean/covariance recurrence does not preserve the invariant cov_n = S_xy - S_x S_y / n: after one step %s is off by %s '
                           '(scalar abstraction of the outer product; n items before the step)%s' % (verdict[1], verdict[2], ptag), fx.rel(f['loc']), 'E-ALG')
        ci = covs[0][0]
        c1, c2 = canonical_access(ev, ci, cb['$P1'], loops), canonical_access(ev, ci, cb['$P2'], loops)
        good = {('sourcePoints', 'S'), ('targetPoints', 'T')}
        pair_ok = {c1, c2} == good
        pair_known = all(c[0] in ('sourcePoints', 'targetPoints') and c[1] in ('S', 'T', 'N') for c in (c1, c2))
    else:
        sm, tm = decls.get('sourceMean'), decls.get('targetMean')
        okm = sm is not None and tm is not None and isinstance(sm[1], tuple) and sm[1][0] == 'mean' and sm[1][1:] == ('sourcePoints',) \
            and isinstance(tm[1], tuple) and tm[1][0] == 'mean' and tm[1][1:] == ('targetPoints',)
        swapped_m = sm is not None and tm is not None and isinstance(sm[1], tuple) and isinstance(tm[1], tuple) and sm[1][0] == 'mean' and tm[1][0] == 'mean' and \
            (sm[1][1:], tm[1][1:]) in ((('targetPoints',), ('sourcePoints',)), (('sourcePoints',), ('sourcePoints',)), (('targetPoints',), ('targetPoints',)))
        R.form(okm, 'V2', inst + ':means', 'means are not in the enumerated form mean(sourcePoints)/mean(targetPoints): %s %s' % (sm, tm), 'means of the two sets', fx.rel(f['loc']), 'E-SIB',
               facts=[(swapped_m, 'sourceMean / targetMean are %s / %s: a mean is taken of the wrong set' % (sm[1] if sm else None, tm[1] if tm else None))])
        ci = covs[0][0]
        lpc = loops.get(id(ev[ci][2]))
        nvar = full_index_loop(lpc, 'sourcePoints') or full_index_loop(lpc, 'targetPoints')
        acc_sets = {cb['$P1'][1] if isinstance(cb['$P1'], tuple) and len(cb['$P1']) == 3 else None, cb['$P2'][1] if isinstance(cb['$P2'], tuple) and len(cb['$P2']) == 3 else None}
        same_n = nvar is not None and all(isinstance(p, tuple) and len(p) == 3 and p[0] == '[]' and p[2] == nvar for p in (cb['$P1'], cb['$P2']))
        pair_ok = same_n and acc_sets == {'sourcePoints', 'targetPoints'}
        pair_known = same_n and acc_sets <= {'sourcePoints', 'targetPoints'}
    if pair_ok:
        R.holds('V3', inst + ':pairs', 'pairs the corresponded points', fx.rel(covs[0][1][2]['loc']), 'E-SIB')
    elif pair_known:
        R.violated('V3', inst + ':pairs', 'covariance pairs %s with %s: not the corresponded pair' % (cb['$P1'], cb['$P2']), fx.rel(covs[0][1][2]['loc']), 'E-SIB')
    else:
        R.undecided('V3', inst + ':pairs', 'how the covariance fetches its pair is not resolved: %s with %s' % (cb['$P1'], cb['$P2']))
    # the returned matrix is H
    rets = [e for e in ev if e[0] == 'return']
    if bypass:
        rets = [r_ for r_ in rets if not r_[3]]      # guarded early returns are V10's business
    R.form(len(rets) == 1 and rets[0][1] == H, 'V2', inst + ':return', 'the return statement(s) %s are not `return %s`' % ([r_[1] for r_ in rets], H), 'returns H', fx.rel(f['loc']), 'E-SIB')
    # tail for overload comparison (from the svd declaration on, guards included)
    start = decls[svdname][0]
    return [(e[0], e[1], tuple(g[0] for g in e[3])) for e in ev[start:]]


def reflection_handled(ev, ri, factor_names, product_names, rhs, rhs_x, D, decls, expand, MU, MV):
    """(True/False/None, explanation, loc)."""
    last = D - 1
    # idiom A: if (<det expr> < 0) { negate last column of a factor } before the store
    for i, e in enumerate(ev[:ri]):
        if e[0] != 'if':
            continue
        g = e[1]
        if not contains_call(g, '.determinant'):
            continue
        dets = det_args(g)
        if not dets or not all(contains(expand(d), MU) or contains(expand(d), MV) for d in dets):
            continue
        sign_ok = isinstance(g, tuple) and g[0] in ('<',) and g[2] == 0
        sign_ok = sign_ok or (isinstance(g, tuple) and g[0] == '>' and g[1] == 0)
        body = [x for x in ev[i + 1:ri] if any(gg[2] is e[2] and gg[1] for gg in x[3])]
        if not body:
            return False, 'determinant test at this point has an empty body: no correction is applied', e[2]['loc']
        if not sign_ok:
            # another spelling of the test: evaluated (E-STEP) on determinants of orthogonal factors as the two scalar types compute them, +-1 up to a few units of rounding
            bv = det_test_by_value(g)
            if bv is None:
                return None, 'determinant test `%s` is not of the form det < 0 and is not evaluable on witness determinants' % (g,), e[2]['loc']
            if bv[0] is False:
                return False, ('the reflection test is `%s`: for factors whose determinants are %s and %s as computed in %s (orthogonal matrices: +-1 up to a few units of rounding, %s) it evaluates to %s, so the '
                               'correction is %s - %s' % (pp_s(g), bv[1][0], bv[1][1], bv[1][2], '1e-7 in float, 1e-16 in double', bv[1][3],
                                                          'applied to a proper rotation' if bv[1][3] else 'not applied to a reflection',
                                                          'every result of the %s instantiations has determinant -1 and a translation to match; an absolute tolerance is only right for one scalar type' % bv[1][2]
                                                          if bv[1][3] else 'the result keeps determinant -1: a FULL-rank covariance can have a reflection as its orthogonal optimum (nearly coplanar sets whose noise '
                                                          'exceeds their thickness), so the test may not be tied to the rank')), e[2]['loc']
            sign_ok = True
        pcol, pwhich = negates_last_column(body, product_names, last)
        if pcol is not None:
            return False, ('the reflection correction negates a column of the product V*U^T (%s): V*U^T*S is a proper rotation but not V*S*U^T, the least-squares optimum - for coplanar 3-D sets '
                           'about half of the inputs are mapped by the wrong rotation; the sign must be applied between the factors (to V or U)' % pwhich), e[2]['loc']
        col_ok, which = negates_last_column(body, factor_names, last)
        if col_ok is None:
            return None, 'correction under the determinant test is not a negation of one column of u/v: %s' % ([x[1] for x in body],), e[2]['loc']
        if not col_ok:
            return False, 'the reflection correction negates column %s, not the last column %d (the one of the smallest singular value)' % (which, last), e[2]['loc']
        if not contains(rhs, which.split(' ')[0]):
            return None, 'the corrected factor %s is not the one used in the rotation %s' % (which, rhs), e[2]['loc']
        return True, 'rotation store is preceded by `if (%s) negate last column of %s`' % (pp_s(g), which), e[2]['loc']
    # corrections applied after the store (to the block itself)
    for i, e in enumerate(ev[ri + 1:]):
        if e[0] == 'if' and contains_call(e[1], '.determinant'):
            return False, 'a determinant correction is applied after the rotation has been stored (to the product): V*U^T*S is not the least-squares optimum V*S*U^T', e[2]['loc']
    # idiom B: V * D * U^T with D depending on a determinant
    b = {}
    if m(('*', ('*', '$A', '$D'), ('.transpose', '$B')), rhs, b) and isinstance(b['$D'], str):
        dn = b['$D']
        dep = [e for e in ev[:ri] if e[0] == 'expr' and contains(e[1], dn) and contains_call(e[1], '.determinant')]
        if dep:
            return True, 'rotation is %s*%s*%s^T with %s set from a determinant' % (b['$A'], dn, b['$B'], dn), dep[0][2]['loc']
    if contains_call(rhs_x, '.determinant'):
        return None, 'rotation expression uses a determinant in a form not enumerated: %s' % (rhs,), None
    return False, ('the rotation block is assigned %s with no determinant correction on any path: for coplanar 3-D (or collinear-degenerate 2-D) point sets the SVD factors '
                   'can combine to a reflection (det = -1)' % pp_s(rhs)), None


def det_test_by_value(g):
    """Evaluates a reflection test on the determinants of the two SVD factors: (True, None) when it is true exactly for a negative product on every witness of both scalar types;
    (False, (du, dv, scalar type, value of the test)) for the first disagreement; None when not evaluable."""
    from .. import mini
    names = []

    def det_hook(t, env):
        k_ = str(t[1])
        if k_ not in env:
            raise mini.Unsupported('determinant of %s' % (k_,))
        return env[k_]

    def collect(t):
        if isinstance(t, tuple):
            if t and t[0] == '.determinant' and len(t) == 2:
                if str(t[1]) not in names:
                    names.append(str(t[1]))
            for x in t:
                collect(x)
    collect(g)
    if not names or len(names) > 2:
        return None
    uses_rank = contains_call(g, '.rank')
    for (sname, eps) in (('double', 2.0 ** -52), ('float', 2.0 ** -23)):
      for rank_ in ((3, 2) if uses_rank else (3,)):
        for s1 in (1.0, -1.0):
            for s2 in (1.0, -1.0):
                for k1 in (-3, 0, 2):
                    for k2 in (-1, 0, 3):
                        vals = [s1 * (1.0 + k1 * eps), s2 * (1.0 + k2 * eps)]
                        env = {n_: v_ for n_, v_ in zip(names, vals)}
                        env['CARTESIAN_DIM'] = 3
                        S_ = mini.Step(deep_unwrap)
                        S_.hooks['.rank'] = lambda t, env_, rank_=rank_: rank_          # the covariance of noisy data is full rank; exactly coplanar data gives DIM - 1
                        S_.hooks['.determinant'] = det_hook
                        try:
                            got = bool(S_.ev(g, env))
                        except (mini.Unsupported, TypeError):
                            return None
                        prod = 1.0
                        for n_ in names:
                            prod *= env[n_]
                        if len(names) == 1:
                            prod = env[names[0]]
                        if got != (prod < 0):
                            return (False, ('%.9g' % vals[0], '%.9g' % (vals[1] if len(names) > 1 else vals[0]), sname + (' with a covariance of rank %d' % rank_ if uses_rank else ''), got))
    return (True, None)


def one_pass_invariant(fx, f):
    """Loop-invariant check of a one-pass mean / cross-covariance recurrence (scalar abstraction: points are scalars x, y).
    Returns (True, ...) if one step maps (S_x/n, S_y/n, S_xy - S_x S_y/n) to the same forms at n+1, (False, var, residual) if not,
    None if the body is not of that kind."""
    import sympy as sp
    from .. import sym
    loops = [x for x in walk(f['body']) if x.get('k') == 'For']
    if len(loops) != 1:
        return None
    L = loops[0]
    ids = {}
    for s_ in walk(f['body']):
        if s_.get('k') == 'Decl':
            for v in s_['vars']:
                ids.setdefault(v['name'], v['id'])
    need = ('sourceMean', 'targetMean', 'cov')
    if any(n_ not in ids for n_ in need):
        return None
    init = L.get('init')
    lv = [v for v in init['vars'] if const_value(v.get('init')) == 0] if init and init['k'] == 'Decl' else []
    if len(lv) != 1:
        return None
    n = sp.Symbol('n', positive=True)
    Sx, Sy, Sxy, x, y = sp.symbols('Sx Sy Sxy x y', real=True)

    def hook(rd, e, st, ctx):
        k = e.get('k')
        if k == 'Op' and e.get('op') == '[]' and len(e.get('args', [])) == 2:
            b = strip_casts(e['args'][0])
            if b.get('k') == 'Ref' and b.get('name') == 'sourcePoints':
                return [(x, st)]
            if b.get('k') == 'Ref' and b.get('name') == 'targetPoints':
                return [(y, st)]
            if b.get('k') == 'Ref' and b.get('name') == 'correspondences':
                return [({'sourcePointIndex': sp.Symbol('is'), 'targetPointIndex': sp.Symbol('it')}, st)]
        if k == 'MCall' and e.get('m') in ('transpose', 'eval', 'array', 'matrix') and not e.get('inrepo'):
            return rd.ev(e['obj'], st, ctx)
        if k == 'MCall' and e.get('m') == 'size' and not e.get('inrepo'):
            return [(sp.Symbol('N', positive=True), st)]
        return NotImplemented
    rd = sym.Reader(fx, call_hook=hook)
    ctx = {'this': ('this',), 'fn': f, 'depth': 0}

    def step(n_val, ms, mt, cv):
        st = sym.State()
        for p in f['params']:
            st.locals[p['id']] = sp.Symbol('arg:' + p['name'])
        st.locals[lv[0]['id']] = n_val
        st.locals[ids['sourceMean']], st.locals[ids['targetMean']], st.locals[ids['cov']] = ms, mt, cv
        out = rd.ex(L['b'], st, ctx)
        if len(out) != 1:
            return None
        o = out[0]
        return o.locals.get(ids['sourceMean']), o.locals.get(ids['targetMean']), o.locals.get(ids['cov'])
    try:
        gen = step(n, Sx / n, Sy / n, Sxy - Sx * Sy / n)
        base = step(sp.Integer(0), sp.Integer(0), sp.Integer(0), sp.Integer(0))
    except sym.Unsupported:
        return None
    if gen is None or base is None or any(not isinstance(v, sp.Basic) for v in gen + base):
        return None
    want = ((Sx + x) / (n + 1), (Sy + y) / (n + 1), Sxy + x * y - (Sx + x) * (Sy + y) / (n + 1))
    for name, got, w in zip(need, gen, want):
        r = sp.simplify(got - w)
        if r != 0:
            # unchanged accumulators mean this is not a one-pass recurrence at all
            if name != 'cov' and sp.simplify(got - {'sourceMean': Sx / n, 'targetMean': Sy / n}[name]) == 0:
                return None
            return (False, name, sp.factor(r))
    for name, got, w in zip(need, base, (x, y, sp.Integer(0))):
        r = sp.simplify(got - w)
        if r != 0:
            return (False, name + ' (first item)', r)
    return (True, None, None)


def contains_call(s, name):
    if isinstance(s, tuple):
        if s and s[0] == name:
            return True
        return any(contains_call(x, name) for x in s)
    return False


def det_args(s, acc=None):
    acc = [] if acc is None else acc
    if isinstance(s, tuple):
        if s and s[0] == '.determinant':
            acc.append(s[1])
        for x in s:
            det_args(x, acc)
    return acc


def negates_last_column(body, factors, last):
    for x in body:
        s = x[1]
        b = {}
        if x[0] == 'expr' and m(('*=', ('.col', '$M', '$K'), '$C'), s, b) and b['$M'] in factors:
            k = b['$K']
            kval = resolve_index(x[2], k)
            neg = b['$C'] in (-1, -1.0) or b['$C'] == ('u-', 1) or b['$C'] == ('u-', 1.0)
            if not neg:
                return None, None
            return (kval == last), '%s (col %s)' % (b['$M'], kval)
        if x[0] == 'expr' and m(('=', ('.col', '$M', '$K'), ('u-', ('.col', '$M', '$K'))), s, b) and b['$M'] in factors:
            kval = resolve_index(x[2], b['$K'])
            return (kval == last), '%s (col %s)' % (b['$M'], kval)
    return None, None


def resolve_index(stmt, k):
    """Constant value of a column index expression (through the front end's constant evaluator)."""
    if isinstance(k, (int, float)):
        return int(k)
    for y in walk(stmt):
        if y.get('k') == 'MCall' and y.get('m') == 'col' and y.get('args'):
            cv = const_value(y['args'][0])
            if cv is not None:
                return int(cv)
    return None


def pp_s(s):
    if isinstance(s, tuple):
        if len(s) == 3 and s[0] in ('*', '<', '>', '-', '+'):
            return '%s %s %s' % (pp_s(s[1]), s[0], pp_s(s[2]))
        if s[0].startswith('.') and len(s) >= 2:
            return '%s%s(%s)' % (pp_s(s[1]), s[0], ', '.join(pp_s(x) for x in s[2:]))
        return '%s(%s)' % (s[0], ', '.join(pp_s(x) for x in s[1:]))
    return str(s)


def check_find(fx, R, cq, cname):
    finds = fx.fn(cq + '::find')
    if len(finds) != 4:
        R.undecided('V4', cname, '%d find overloads found (4 expected)' % len(finds))
        return
    for f in finds:
        R.used(f)
        pre = 'PreconditionedPointSet' in f['sig']
        withc = len(f['params']) == 3
        tag = ('preconditioned' if pre else 'raw') + ('+corr' if withc else '')
        ev = events(f)
        inst = '%s::find/%s' % (cname, tag)
        if not pre:
            args = ('sourcePoints', 'targetPoints') + (('correspondences',) if withc else ())
            ok = [e[1] for e in ev if e[0] in ('return', 'expr', 'decl')] == [('.estimate_', 'this') + args]
            R.form(ok, 'V4', inst, 'raw overload is not the enumerated `return estimate_(source, target%s)`: %s' % (', correspondences' if withc else '', [e[1] for e in ev]),
                   'returns estimate_ unchanged', fx.rel(f['loc']), 'E-SIB',
                   facts=[(not any(contains(e[1], '.estimate_') for e in ev), 'the raw overload never calls estimate_()'),
                          (any(e[0] == 'return' and isinstance(e[1], tuple) and e[1][:2] == ('.estimate_', 'this') and e[1][2:4] == ('targetPoints', 'sourcePoints') for e in ev),
                           'the raw overload passes (target, source) to estimate_(source, target): it returns the inverse motion')])
        else:
            args = (('.get', 'sourcePoints'), ('.get', 'targetPoints')) + (('correspondences',) if withc else ())
            want = [('decl', ('H', ('.estimate_', 'this') + args)),
                    ('expr', ('/=', ('.block', 'H', 0, 'CARTESIAN_DIM', 'CARTESIAN_DIM', 1), ('()', ('.getPreconditioningMatrix', 'targetPoints'), 0, 0))),
                    ('return', 'H')]
            got = [(e[0], e[1]) for e in ev]
            tblock = ('.block', 'H', 0, 'CARTESIAN_DIM', 'CARTESIAN_DIM', 1)
            scale_t, scale_s = ('()', ('.getPreconditioningMatrix', 'targetPoints'), 0, 0), ('()', ('.getPreconditioningMatrix', 'sourcePoints'), 0, 0)
            upd = [e[1] for e in ev if e[0] == 'expr' and isinstance(e[1], tuple) and len(e[1]) == 3 and e[1][1] == tblock]
            R.form(got == want, 'V4', inst, 'preconditioned overload is not in the enumerated form (translation block /= target scale after estimate_(source.get(), target.get()%s)): %s' % (
                ', correspondences' if withc else '', got), 'translation block /= target scale', fx.rel(f['loc']), 'E-SIB',
                   facts=[(len(upd) == 1 and upd[0][0] == '*=' and upd[0][2] in (scale_t, scale_s), 'the translation block is MULTIPLIED by the preconditioning scale (%s): R(s p) + t\' = s (R p + t\'/s), so t = t\'/s' % (upd[0] if upd else '',)),
                          (not upd and got[:1] == want[:1] and not any(contains(e[1], '.getPreconditioningMatrix') for e in ev), 'the translation estimated on the preconditioned sets is returned without being rescaled by 1/scale')])


def check_preconditioned_set(fx, R):
    classes = sorted(q for q in fx.records if q.startswith('romea::core::PreconditionedPointSet<'))
    if len(classes) != 8:
        R.undecided('V7', 'PreconditionedPointSet', '%d instantiations found (8 expected)' % len(classes))
    for cq in classes:
        cname = short_fn(cq)
        fa = fx.one(cq + '::allocate_')
        comps = fx.fn(cq + '::compute')
        if fa is None or len(comps) != 3:
            R.undecided('V7', cname, 'anchor vanished (allocate_ / three compute overloads)')
            continue
        R.used(fa, *comps)
        # ---- size after allocate_ on every path, for every earlier size -------------------------------------------
        inst = '%s::allocate_:size' % cname
        try:
            paths = sym.Reader(fx).run(fa)
        except sym.Unsupported as e:
            R.undecided('V7', inst, 'not interpretable: %s' % e)
            paths = None
        if paths is not None:
            n = sp.Symbol('arg:' + fa['params'][0]['name'], integer=True)
            size0 = sp.Symbol('size(this.points_)', integer=True, nonnegative=True)
            bad, unknown, exact = None, False, True
            for st in paths:
                c = st.fields.get(('this', 'points_'))
                final = c.size() if isinstance(c, sym.Cont) else size0
                if sp.simplify(final - n) != 0:
                    exact = False
                caps = [a for cnd in st.cond if isinstance(cnd[1], sp.Basic) for a in cnd[1].free_symbols if str(a).startswith('capacity(')]
                for (s0, nn) in ((10, 3), (3, 10), (0, 0), (5, 5), (0, 4), (4, 0)):
                    for extra in (0, 6):
                        env = {size0: s0, n: nn}
                        env.update({a: s0 + extra for a in caps})
                        ok = True
                        for cnd in st.cond:
                            if cnd[0] in ('True', 'False') or not isinstance(cnd[1], sp.Basic):
                                continue
                            v = cnd[1].subs(env)
                            if v not in (sp.true, sp.false):
                                ok = None
                                break
                            if bool(v) != cnd[2]:
                                ok = False
                                break
                        if ok is None:
                            unknown = True
                        elif ok and sp.simplify(final.subs(env) - nn) != 0 and bad is None:
                            bad = (s0, nn, final.subs(env))
            if bad:
                R.violated('V7', inst, 'after a cloud of %d points, compute() with %d points leaves %s elements in the set: get().size() and the tail still describe the earlier cloud, and the '
                           'estimator overload without a correspondence list registers the stale tail' % bad, fx.rel(fa['loc']), 'E-STATE')
            elif exact and not unknown:
                R.holds('V7', inst, 'points_.size() == numberOfPoints on every path (any earlier size / capacity)', fx.rel(fa['loc']), 'E-STATE')
            else:
                R.undecided('V7', inst, 'size after allocate_ not decided on every path')
        # ---- compute overloads ----------------------------------------------------------------------------------------
        for g in comps:
            ev = events(g)
            loops = loop_map(g)
            tag = '%s::compute/%d' % (cname, len(g['params']))
            pname = g['params'][0]['name']
            calls = [e for e in ev if e[0] == 'expr' and isinstance(e[1], tuple) and e[1][0] in ('.compute', '.allocate_') and e[1][1] == 'this']
            stores = [(i, e) for i, e in enumerate(ev) if e[0] == 'expr' and contains(e[1], 'this.points_') and isinstance(e[1], tuple) and e[1][0] in ('=', '+=', '*=')]
            if not stores and len(calls) == 1 and calls[0][1][0] == '.compute' and calls[0][1][2] == pname:
                R.holds('V7', tag, 'delegates to a sibling overload with the same point set', fx.rel(g['loc']), 'E-SIB')
                continue
            decls = {e[1][0]: e[1][1] for e in ev if e[0] == 'decl'}
            size = ('.size', pname)
            al = [i for i, e in enumerate(ev) if e[0] == 'expr' and isinstance(e[1], tuple) and e[1][:2] == ('.allocate_', 'this')]
            arg_ok = len(al) == 1 and (ev[al[0]][1][2] == size or decls.get(ev[al[0]][1][2]) == size) and not ev[al[0]][3]
            if len(stores) == 1 and arg_ok and al[0] < stores[0][0]:
                lp = loops.get(id(stores[0][1][2]))
                cover = False
                if lp is not None and lp[0] == 'for':
                    _, var, init, cond, inc, others = lp
                    bound = cond[2] if isinstance(cond, tuple) and len(cond) == 3 else None
                    cover = init == 0 and isinstance(cond, tuple) and cond[0] == '<' and cond[1] == var and (bound == size or decls.get(bound) == size or others.get(bound) == size) \
                        and inc in (('u++', var), ('++u', var)) and contains(stores[0][1][1][1], ('[]', 'this.points_', var)) and contains(stores[0][1][1][2], ('[]', pname, var))
                if cover:
                    R.holds('V7', tag, 'allocate_(points.size()) precedes a loop writing points_[n] from points[n] for every n in [0, points.size())', fx.rel(g['loc']), 'E-STATE')
                    continue
            if not al and stores:
                R.violated('V7', tag, 'this overload writes points_ without calling allocate_(): the set keeps the size of the previous cloud', fx.rel(g['loc']), 'E-STATE')
            else:
                R.undecided('V7', tag, 'allocation / fill idiom not recognised: calls %s, stores %s' % ([c[1] for c in calls], [s_[1][1] for s_ in stores][:2]))


def closed_form_tail(fx, R, f, inst, D):
    """'violated' / 'holds' / None (not applicable: the tail uses the SVD factors or is not interpretable)."""
    from ..tree import prune
    from .. import mat, alg
    body = prune(f['body'])
    top = body['s'] if body and body.get('k') == 'Compound' else []
    loops = [i for i, x in enumerate(top) if x.get('k') in ('For', 'RangeFor', 'While')]
    if not loops:
        return None
    tail = top[loops[-1] + 1:]
    if not tail:
        return None
    uses_svd = any(y.get('k') in ('Decl',) and any('JacobiSVD' in (v['t'].get('s') or '') for v in y['vars']) for x in tail for y in walk(x))
    # ---- early exits under a tolerance test on the covariance ----------------------------------------------------------------
    for x in tail:
        if x.get('k') == 'If' and any(y.get('k') == 'Return' for y in walk(x.get('t'))):
            ctxt = pp(x['c'])
            tol = any(y.get('k') == 'MCall' and y.get('m') in ('isZero', 'isMuchSmallerThan', 'isApprox', 'isApproxToConstant', 'isConstant') for y in walk(x['c'])) or \
                any(y.get('k') == 'Bin' and y.get('op') in ('<', '<=') and isinstance(const_value(y.get('r')), float) and const_value(y.get('r')) > 0 for y in walk(x['c']))
            stores_rot = any(y.get('k') == 'MCall' and y.get('m') in ('block', 'topLeftCorner', 'linear') for z in walk(x.get('t')) if z.get('k') == 'Expr' for y in walk(z)
                             if 'CARTESIAN_DIM, CARTESIAN_DIM' in pp(y).replace('0, 0, ', '') or 'linear' in pp(y))
            if tol and 'cov' in ctxt and not uses_rotation_from_cov(x.get('t')):
                R.violated('V8', inst + ':tolerance-exit', 'under `%s` the estimator returns without deriving a rotation from the covariance (the linear part stays what H was initialised with); the test is a '
                           'tolerance on the covariance entries, which scale with (preconditioning scale)^2 * (cloud extent)^2 * N: small but perfectly conditioned clouds of the quantifier (every preconditioning '
                           'scale, clustered sets) satisfy it and get the identity rotation' % ctxt, fx.rel(x['loc']), 'E-STATE')
                return 'violated'
    if uses_svd:
        return None
    # ---- symbolic reading of the tail with the covariance as input ---------------------------------------------------------
    ids = {}
    for x in walk(f['body']):
        if x.get('k') == 'Decl':
            for v in x['vars']:
                ids.setdefault(v['name'], (v['id'], v['t'].get('s', '')))
    if 'cov' not in ids or 'sourceMean' not in ids or 'targetMean' not in ids:
        return None
    P = mat.dims_of(ids['cov'][1])
    if P is None:
        return None
    P = P[0]
    C = sp.ImmutableMatrix(P, P, lambda i, j: sp.Symbol('c%d%d' % (i, j), real=True) if i < D and j < D else sp.Integer(0))
    ms = sp.ImmutableMatrix(P, 1, lambda i, j: sp.Symbol('ms%d' % i, real=True) if i < D else sp.Integer(1))
    mt = sp.ImmutableMatrix(P, 1, lambda i, j: sp.Symbol('mt%d' % i, real=True) if i < D else sp.Integer(1))

    def hook(rd, e, st, ctx):
        if e.get('k') == 'MCall' and e.get('m') == 'toRotationMatrix' and 'Rotation2D' in ((strip_casts(e['obj']).get('t') or {}).get('s', '')):
            o_ = strip_casts(e['obj'])
            args_ = o_.get('args', []) if o_.get('k') == 'Construct' else []
            if len(args_) == 1:
                return [(sp.ImmutableMatrix([[sp.cos(v), -sp.sin(v)], [sp.sin(v), sp.cos(v)]]), s2) for (v, s2) in rd.ev(args_[0], st, ctx) if isinstance(v, sp.Basic)]
        return mat.hook(rd, e, st, ctx)
    rd = sym.Reader(fx, call_hook=hook, member_hook=mat.member_hook)
    st0 = sym.State()
    st0.locals[ids['cov'][0]] = C
    st0.locals[ids['sourceMean'][0]] = ms
    st0.locals[ids['targetMean'][0]] = mt
    ctx = {'this': ('this',), 'fn': f, 'depth': 0}
    try:
        states = [st0]
        for x in tail:
            nxt = []
            for s_ in states:
                nxt += rd.ex(x, s_, ctx)
            states = nxt
    except sym.Unsupported:
        return None
    if D != 2 or not states:
        return None
    S = sp.Matrix([[2, sp.Rational(3, 10)], [sp.Rational(3, 10), 1]])
    n_ok = 0
    for st in states:
        H = st.ret
        if not isinstance(H, sp.MatrixBase) or H.shape[0] < 3:
            return None
        Rb = sp.Matrix(H[:2, :2])
        tr = sp.Matrix(H[:2, 2])
        for phi in (sp.Rational(3, 10), sp.Rational(17, 10), -sp.Rational(11, 5), sp.Rational(31, 10), -sp.Rational(3, 2)):
            Rphi = sp.Matrix([[sp.cos(phi), -sp.sin(phi)], [sp.sin(phi), sp.cos(phi)]])
            Cv = S * Rphi.T
            env = {C[i, j]: Cv[i, j] for i in range(2) for j in range(2)}
            try:
                got = sp.Matrix(Rb).subs(env).applyfunc(lambda x: sp.N(x, 30))
            except Exception:
                return None
            if any(not g_.is_number for g_ in got):
                return None
            err = max(abs(sp.N(got[i, j] - Rphi[i, j], 30)) for i in range(2) for j in range(2))
            if err > sp.Float('1e-9'):
                R.violated('V8', inst + ':closed-form-rotation', 'the 2-D closed form stores %s; for point sets related by a rotation of %s rad (cov = S R^T with S positive definite) it evaluates to '
                           '[[%s, %s], [%s, %s]] instead of R(%s): off by %s - the quadrant of the angle is lost beyond +-pi/2 (the quantifier has every angle up to pi)' % (
                               str(Rb.tolist())[:200], phi, sp.N(got[0, 0], 4), sp.N(got[0, 1], 4), sp.N(got[1, 0], 4), sp.N(got[1, 1], 4), phi, sp.N(err, 3)), fx.rel(f['loc']), 'E-ALG')
                return 'violated'
            n_ok += 1
        # translation column = targetMean - R sourceMean with the very rotation stored
        want_t = sp.Matrix(mt[:2, 0]) - Rb * sp.Matrix(ms[:2, 0])
        v = alg.decide_zero(sp.Matrix(tr - want_t))
        if v[0] == 'nonzero':
            R.violated('V8', inst + ':closed-form-translation', 'the translation column is %s, not targetMean - R*sourceMean with the stored rotation (differs by %s at %s)' % (
                str(tr.T.tolist())[:200], v[2], alg.witness_text(v[1])[:160]), fx.rel(f['loc']), 'E-ALG')
            return 'violated'
        if v[0] != 'zero':
            return None
    R.undecided('V8', inst + ':closed-form', 'the rotation is a closed form of the covariance that reproduces R(phi) on %d witness angles on both sides of pi/2; least-squares optimality for noisy data is not decided '
                'for a closed form' % n_ok)
    return None


def uses_rotation_from_cov(block):
    """does the block store a linear part computed from the covariance (SVD factors, closed form ...)?"""
    for x in walk(block):
        if x.get('k') == 'Decl' and any('JacobiSVD' in (v['t'].get('s') or '') or 'cov' in pp(v.get('init')) for v in x['vars'] if v.get('init') is not None):
            return True
    return False
