"""Algebraic identities of C03 (filled in below)."""
def run(fx, R, d):
    pass
