"""Algebraic identities of C03 (rules A1..A5, W1) on the formulas extracted by C03.run."""
import sympy as sp
from .. import sym, esign, alg
from ..tree import sx, walk, pp, strip_casts as strip_casts_
from .C20 import deep_unwrap

Q = 'romea::core::LambertConverter::'


def S(name):
    return sp.Symbol(name, real=True)


def zero(e):
    try:
        r = sp.simplify(e)
        if r == 0:
            return True, r
        # no `force=True` here: forcing positivity would identify |c| with c and hide the sign of the southern cone constants
        r2 = sp.simplify(sp.powsimp(sp.expand_log(sp.powdenest(r))))
        return (r2 == 0), r2
    except Exception as ex:      # pragma: no cover
        return None, str(ex)


def c03_domain(s_):
    """witness ranges (hundredths) of this property's quantifier: eccentricity in [0, 0.1], latitudes at mid latitudes, small longitude offsets"""
    n = s_.name
    if n in ('arg:e', 'this.e_', 'ellipsoid.e', 'e') or n.endswith('.e'):
        return (1, 10)
    if 'latitude' in n.lower():
        return (30, 130)
    if 'longitude' in n.lower():
        return (-50, 50)
    if n.endswith('k0'):
        return (99, 100)
    return None


def chk(R, ok, res, rule, inst, what, detail, loc, eng='E-ALG'):
    """ok from zero(): True -> HOLDS.  Otherwise the residual is confirmed non-zero on a witness point before VIOLATED is reported;
    a residual that merely does not simplify is UNDECIDED (alg.decide_zero)."""
    if ok:
        R.holds(rule, inst, detail, loc, eng)
        return
    from .. import alg
    ress = res if isinstance(res, (list, tuple)) else [res]
    worst = None
    for r_ in ress:
        if not isinstance(r_, sp.Basic):
            worst = worst or ('unknown', 'simplifier error: %s' % (r_,))
            continue
        v = alg.decide_zero(r_, domain=c03_domain)
        if v[0] == 'nonzero':
            R.violated(rule, inst, '%s  [non-zero, e.g. %s at %s]' % (what, v[2], alg.witness_text(v[1])), loc, eng)
            return
        if v[0] == 'unknown':
            worst = v
    if worst is None:
        R.holds(rule, inst, detail, loc, eng)
    else:
        R.undecided(rule, inst, '%s: %s' % (what[:160], worst[1]))


def run(fx, R, d):
    R.floor('A2', 3)
    R.floor('A1', 2)
    rsec, ssec, rtan, stan, rfor, sfor, rinv, sinv = (d[k] for k in ('rsec', 'ssec', 'rtan', 'stan', 'rfor', 'sfor', 'rinv', 'sinv'))
    fsec, ftan, ffor, finv = (d[k] for k in ('fsec', 'ftan', 'ffor', 'finv'))
    loc_s, loc_t, loc_f, loc_i = (fx.rel(f['loc']) for f in (fsec, ftan, ffor, finv))
    n_, c_, xs_, ys_, lon0_, e_ = S('this.n_'), S('this.c_'), S('this.xs_'), S('this.ys_'), S('this.longitude0_'), S('this.e_')
    lat, lon = S('wgs84Coordinates.latitude'), S('wgs84Coordinates.longitude')
    # ---- forward map ---------------------------------------------------------------------
    if len(sfor) != 1 or not isinstance(sfor[0].ret, sp.Basic) or len(sfor[0].ret.args) != 2 or 'isolat' not in rfor.atom_defs:
        R.undecided('A1', 'LambertConverter::toLambert', 'forward map not readable as (x, y) with an isometric-latitude atom')
        return
    X, Y = sfor[0].ret.args
    # locals the forward map may introduce (rho, theta ...) are replaced by their definitions; only the isometric latitude stays an atom
    for _ in range(3):
        sub_ = {S(k): v for k, v in rfor.atom_defs.items() if k != 'isolat'}
        X, Y = X.subs(sub_), Y.subs(sub_)
    L = S('isolat')
    Ldef = rfor.atom_defs['isolat']
    D = n_ * (lon - lon0_)
    rad, rr_ = zero((X - xs_) ** 2 + (ys_ - Y) ** 2 - c_ ** 2 * sp.exp(-2 * n_ * L))
    ang, r2 = zero((X - xs_) * sp.cos(D) - (ys_ - Y) * sp.sin(D))
    chk(R, rad, rr_, 'A1', 'LambertConverter::toLambert:radius', '(x-xs)^2 + (ys-y)^2 differs from (c exp(-n L))^2', 'polar radius |c| exp(-n L(lat))', loc_f, 'E-ALG')
    chk(R, ang, r2, 'A1', 'LambertConverter::toLambert:angle', '(x-xs) cos(n dlon) - (ys-y) sin(n dlon) = %s (should vanish)' % (r2,), 'polar angle n (lon - lon0) measured from the -y axis', loc_f, 'E-ALG')
    # ---- A4 conformality ------------------------------------------------------------------------
    e = e_
    dL = sp.diff(Ldef, lat)
    target = (1 - e ** 2) / ((1 - e ** 2 * sp.sin(lat) ** 2) * sp.cos(lat))
    ok, res = conformal_identity(Ldef, lat, e)
    chk(R, ok, res, 'A4', 'LambertConverter::computeIsometricLatitude:derivative', 'dL/dlat - (1-e^2)/((1-e^2 sin^2 lat) cos lat) = %s (should vanish): meridian and parallel scales differ' % (res,),
            'dL/dlat = (1-e^2)/((1-e^2 sin^2) cos): conformal', fx.rel(d['fiso']['loc']), 'E-ALG')
    # ---- secant parameters ------------------------------------------------------------------------
    defs = rsec.atom_defs
    need = ('N1', 'N2', 'isolat1', 'isolat2', 'coslat1', 'coslat2', 'n', 'c')
    if any(k not in defs for k in need):
        R.undecided('A2', 'LambertConverter::computeProjectionParameters/secant', 'atoms missing: %s' % [k for k in need if k not in defs])
    else:
        a, ee = S('ellipsoid.a'), S('ellipsoid.e')
        # atoms mean what their names say
        for k, phi in (('1', S('parameters.latitude1')), ('2', S('parameters.latitude2'))):
            okN, rN = zero(defs['N' + k] - a / sp.sqrt(1 - ee ** 2 * sp.sin(phi) ** 2))
            chk(R, okN, rN, 'A2', 'secant:N%s' % k, 'N%s is %s, not a/sqrt(1-e^2 sin^2 lat%s)' % (k, defs['N' + k], k), 'N%s = prime-vertical radius at parallel %s' % (k, k), loc_s, 'E-ALG')
            okC, rC = zero(defs['coslat' + k] - sp.cos(phi))
            chk(R, okC, rC, 'A2', 'secant:coslat%s' % k, 'coslat%s is %s' % (k, defs['coslat' + k]), 'coslat%s = cos(lat%s)' % (k, k), loc_s, 'E-ALG')
        for k in [k_ for k_ in ('0', '1', '2') if 'isolat' + k_ in defs]:
            want = Ldef.subs({lat: S('parameters.latitude' + k), e_: ee})
            okL, rL = zero(defs['isolat' + k] - want)
            chk(R, okL, rL, 'A2', 'secant:isolat%s' % k, 'isolat%s is not the isometric latitude (as used by toLambert) of latitude%s' % (k, k), 'isolat%s = L(lat%s)' % (k, k), loc_s, 'E-ALG')
        N1, N2, c1, c2 = (sp.Symbol(x, positive=True) for x in ('N1', 'N2', 'coslat1', 'coslat2'))
        L0, L1, L2 = S('isolat0'), S('isolat1'), S('isolat2')
        n, c = S('n'), S('c')
        pos = {S('N1'): N1, S('N2'): N2, S('coslat1'): c1, S('coslat2'): c2}
        ndef = defs['n'].subs(pos)
        cdef = defs['c'].subs(pos)
        k1 = (n * c * sp.exp(-n * L1) / (N1 * c1)).subs(c, cdef)
        ok1, r1 = zero(k1 - 1)
        chk(R, ok1, r1, 'A2', 'secant:scale-on-parallel-1', 'scale on the first standard parallel is %s, not 1' % sp.simplify(k1), 'k(lat1) = 1', loc_s, 'E-ALG')
        k2 = (n * c * sp.exp(-n * L2) / (N2 * c2)).subs(c, cdef).subs(n, ndef)
        ok2, r2_ = zero(k2 - 1)
        chk(R, ok2, r2_, 'A2', 'secant:scale-on-parallel-2', 'scale on the second standard parallel is %s, not 1' % sp.simplify(k2), 'k(lat2) = 1', loc_s, 'E-ALG')
        # A3 origin / W1 aggregate order
        for st in ssec:
            if not isinstance(st.ret, tuple) or len(st.ret) != 5:
                R.undecided('A3', 'secant:origin', 'returned parameters not readable')
                continue
            rl, rn, rc, rx, ry = st.ret
            cond_true = all(cc[2] for cc in st.cond)
            exp_ = (S('parameters.longitude0'), n, c, S('parameters.x0'))
            got_ = (rl, rn, rc, rx)
            misplaced = [(i_, j_) for i_ in range(4) for j_ in range(4) if i_ != j_ and got_[i_] == exp_[j_]]
            winst = 'secant:aggregate-order/%s' % ('generic' if cond_true else 'polar')
            if got_ == exp_:
                R.holds('W1', winst, 'aggregate = (longitude0, n, c, xs=x0, ys)', loc_s, 'E-SIB')
            elif misplaced:
                names_ = ('longitude0', 'n', 'c', 'xs')
                R.violated('W1', winst, 'the returned aggregate carries %s in the slot of %s: (%s, %s, %s, %s, ..), expected (longitude0, n, c, x0, ys)' % (
                    names_[misplaced[0][1]], names_[misplaced[0][0]], rl, rn, rc, rx), loc_s, 'E-SIB')
            else:
                R.undecided('W1', winst, 'a slot of the returned aggregate is neither the parameter nor the local of that name (%s); the values are judged by A2/A3' % (
                    [str(g_)[:60] for g_, e__ in zip(got_, exp_) if g_ != e__],))
            if cond_true:
                # the origin (latitude0, longitude0) goes through the forward map to ys - c exp(-n L(latitude0; e of the ellipsoid)); an
                # `isolat0` local, when there is one, is replaced by its definition so that the rule does not depend on how ys is spelled
                L0true = Ldef.subs({lat: S('parameters.latitude0'), e_: ee})
                ry_x = ry.subs(L0, defs['isolat0']) if 'isolat0' in defs else ry
                Y0 = ry_x - c * sp.exp(-n * L0true)
                ok0, r0 = zero(Y0 - S('parameters.y0'))
                chk(R, ok0, r0, 'A3', 'secant:origin-y', 'the origin maps to y = y0 + (%s)' % r0, 'origin -> y0', loc_s, 'E-ALG')
    # ---- tangent parameters -----------------------------------------------------------------------------
    tdefs = rtan.atom_defs
    need = ('N', 'cotlat', 'isolat', 'n', 'C', 'YS')
    if any(k not in tdefs for k in need):
        R.undecided('A2', 'LambertConverter::computeProjectionParameters/tangent', 'atoms missing: %s' % [k for k in need if k not in tdefs])
    else:
        phi0 = S('parameters.latitude0')
        a, ee, k0 = S('ellipsoid.a'), S('ellipsoid.e'), S('parameters.k0')
        okN, t1_ = zero(tdefs['N'] - a / sp.sqrt(1 - ee ** 2 * sp.sin(phi0) ** 2))
        okL, t2_ = zero(tdefs['isolat'] - Ldef.subs({lat: phi0, e_: ee}))
        okn, t3_ = zero(tdefs['n'] - sp.sin(phi0))
        okc, t4_ = zero(tdefs['cotlat'] - sp.cos(phi0) / sp.sin(phi0))
        chk(R, bool(okN and okL and okn and okc), [t1_, t2_, t3_, t4_], 'A2', 'tangent:atoms', 'N / isolat / n / cotlat are not N(lat0), L(lat0), sin(lat0), cot(lat0): %s' % {k: str(v) for k, v in tdefs.items() if k in need[:4]},
                'N(lat0), L(lat0), n = sin(lat0), cot(lat0)', loc_t, 'E-ALG')
        N, cot, Lt, n, C, YS = S('N'), S('cotlat'), S('isolat'), S('n'), S('C'), S('YS')
        kt = (n * C * sp.exp(-n * Lt) / (N * sp.cos(phi0))).subs(C, tdefs['C']).subs({n: tdefs['n'], cot: tdefs['cotlat']})
        okk, rk = zero(kt - k0)
        chk(R, okk, rk, 'A2', 'tangent:scale-on-parallel', 'scale on the tangent parallel is %s, not k0' % sp.simplify(kt), 'k(lat0) = k0', loc_t, 'E-ALG')
        for st in stan:
            if isinstance(st.ret, tuple) and len(st.ret) == 5:
                rl, rn, rc, rx, ry = st.ret
                R.check(rl == S('parameters.longitude0') and rn == n and rc == C and rx == S('parameters.x0') and ry == YS, 'W1', 'tangent:aggregate-order',
                        'returned aggregate is (%s, %s, %s, %s, %s)' % st.ret, 'aggregate = (longitude0, n, C, x0, YS)', loc_t, 'E-SIB')
                Y0 = (YS - C * sp.exp(-n * Lt)).subs({YS: tdefs['YS'], C: tdefs['C']})
                ok0, r0 = zero(Y0 - S('parameters.y0'))
                chk(R, ok0, r0, 'A3', 'tangent:origin-y', 'the origin maps to y = y0 + (%s)' % r0, 'origin -> y0', loc_t, 'E-ALG')
    # ---- A3 on the maps themselves: origin x and central meridian ---------------------------------------
    Xm = X.subs(lon, lon0_)
    okx, rx_ = zero(Xm - xs_)
    chk(R, okx, rx_, 'A3', 'toLambert:central-meridian', 'on the central meridian x - xs = %s' % rx_, 'central meridian -> x = xs (= x0)', loc_f, 'E-ALG')
    Ym = sp.simplify(Y.subs(lon, lon0_))
    oky, ry_ = zero(Ym - (ys_ - c_ * sp.exp(-n_ * L)))
    chk(R, oky, ry_, 'A3', 'toLambert:origin-ordinate', 'on the central meridian y = %s; with ys = y0 + c exp(-n L0) the origin then maps to y0 + (%s), non-zero when c < 0 (southern cones)' % (Ym, ry_),
            'y(lat, lon0) = ys - c exp(-n L(lat))', loc_f, 'E-ALG')
    d['XY'] = (X, Y, L)
    check_wiring(fx, R, d)
    check_inverse(fx, R, d, X, Y, L, Ldef, D)


def conformal_identity(Ldef, lat, e):
    """dL/dlat == (1-e^2)/((1-e^2 sin^2) cos)  via the substitution t = tan(lat/2) (rational identity)."""
    t = sp.Symbol('t', positive=True)
    s_, c_ = 2 * t / (1 + t ** 2), (1 - t ** 2) / (1 + t ** 2)
    dL = sp.diff(Ldef, lat)
    target = (1 - e ** 2) / ((1 - e ** 2 * sp.sin(lat) ** 2) * sp.cos(lat))
    diff_ = (dL - target)
    diff_ = diff_.rewrite(sp.tan) if False else diff_
    # express tan(lat/2 + pi/4) = (1+t)/(1-t)
    diff_ = diff_.subs(sp.tan(lat / 2 + sp.pi / 4), (1 + t) / (1 - t))
    diff_ = diff_.subs({sp.sin(lat): s_, sp.cos(lat): c_})
    try:
        r = sp.simplify(sp.powsimp(sp.powdenest(sp.together(diff_), force=True), force=True))
        if r == 0:
            return True, r
        r = sp.simplify(sp.expand_power_base(r, force=True))
        return r == 0, r
    except Exception as ex:      # pragma: no cover
        return None, str(ex)


def check_wiring(fx, R, d=None):
    """W1 (value-based): each public constructor is read end to end (delegating constructors and computeProjectionParameters inlined);
    the fields the maps read must receive: the eccentricity of the ellipsoid the parameters were computed on, and the five
    parameters in their own slots (compared with the standalone reading of computeProjectionParameters, path by path)."""
    from . import C03
    ctors = [f for f in fx.functions.values() if f.get('ctor') and f.get('cls') == 'romea::core::LambertConverter' and not f.get('copyctor')]
    want_fields = ('longitude0_', 'n_', 'c_', 'xs_', 'ys_', 'e_')
    for f in sorted(ctors, key=lambda f_: f_['sig']):
        np_ = len(f['params'])
        kind = 'Secant' if 'Secant' in f['sig'] else 'Tangent' if 'Tangent' in f['sig'] else 'ProjectionParameters,e' if np_ == 2 else '%d args' % np_
        inst = 'LambertConverter(%s)' % kind
        R.used(f)
        try:
            rd = sym.Reader(fx, call_hook=C03.hook)
            rd.atoms = set(C03.ATOMS)
            sts = rd.run(f)
        except sym.Unsupported as u:
            R.undecided('W1', inst, 'constructor not interpretable: %s' % u)
            continue
        ref = None
        if kind in ('Secant', 'Tangent') and d is not None:
            ref = d['ssec'] if kind == 'Secant' else d['stan']
        bad = unknown = None
        for n_, st in enumerate(sts):
            got = {k: st.fields.get(('this', k)) for k in want_fields}
            if any(v is None for v in got.values()):
                unknown = unknown or 'field(s) %s not written' % [k for k, v in got.items() if v is None]
                continue
            if np_ == 6:
                exp = {k: S('arg:' + k[:-1]) for k in want_fields}
            elif kind == 'ProjectionParameters,e':
                exp = {k: S('parameters.' + k[:-1]) for k in want_fields[:5]}
                exp['e_'] = S('arg:e')
            elif kind not in ('Secant', 'Tangent'):
                unknown = unknown or 'a constructor this rule has no expectation for'
                continue
            else:
                exp = {'e_': S('ellipsoid.e')}
                if ref is not None and len(ref) == len(sts) and isinstance(ref[n_].ret, tuple) and len(ref[n_].ret) >= 5:
                    exp.update(dict(zip(want_fields[:5], ref[n_].ret[:5])))
            for k, w in exp.items():
                g = got[k]
                if g == w or (isinstance(g, sp.Basic) and isinstance(w, sp.Basic) and sp.simplify(g - w) == 0):
                    continue
                others = [k2 for k2, w2 in exp.items() if k2 != k and (g == w2)]
                if k == 'e_':
                    bad = bad or ('the eccentricity the maps of a converter built by %s use (e_) is `%s`, not the eccentricity %s of the ellipsoid its parameters were computed on: forward and inverse '
                                  'maps then work on another ellipsoid than n, c, ys' % (inst, g, w))
                elif others:
                    bad = bad or ('field %s receives the value meant for %s (%s)' % (k, others[0], g))
                else:
                    # a field that receives another function of its parameter: does the forward map change?  (witness-confirmed on the
                    # parameter domain of the quantifier, both signs of the central meridian included)
                    verdict = None
                    if d is not None and d.get('XY') is not None and isinstance(g, sp.Basic) and isinstance(w, sp.Basic):
                        X_, Y_, _ = d['XY']
                        fs_ = S('this.' + k)
                        def dom_(s_):
                            n_ = s_.name
                            if 'longitude' in n_:
                                return (-300, 300)
                            if 'latitude' in n_:
                                return (30, 120)
                            if n_.endswith('n_') or n_ in ('this.n_',):
                                return (30, 95)
                            if n_.endswith('c_'):
                                return (10 ** 8, 12 * 10 ** 8)
                            if 'isolat' in n_:
                                return (40, 130)
                            return None
                        resid = sp.Matrix([X_.subs(fs_, g) - X_.subs(fs_, w), Y_.subs(fs_, g) - Y_.subs(fs_, w)])
                        verdict = alg.decide_zero_on_path(resid, [(c_[1], c_[2]) for c_ in st.cond], tries=40, domain=dom_)
                    if verdict is not None and verdict[0] == 'nonzero':
                        bad = bad or ('field %s receives `%s` instead of its parameter %s, and the forward map changes with it (a projected coordinate moves by %s at %s): the origin no longer maps to (x0, y0) '
                                      'and the central meridian no longer maps onto x = x0 for those parameters' % (k, str(g)[:80], w, verdict[2], alg.witness_text(verdict[1])[:140]))
                    else:
                        unknown = unknown or 'field %s receives %s, expected %s' % (k, str(g)[:80], str(w)[:80])
        if bad:
            R.violated('W1', inst, bad, fx.rel(f['loc']), 'E-STATE')
        elif unknown:
            R.undecided('W1', inst, unknown)
        else:
            R.holds('W1', inst, 'every field the maps read receives its own parameter; e_ = eccentricity of the ellipsoid of the parameters', fx.rel(f['loc']), 'E-STATE')


def check_inverse(fx, R, d, X, Y, L, Ldef, D):
    rinv, sinv, finv = d['rinv'], d['sinv'], d['finv']
    loc = fx.rel(finv['loc'])
    n_, c_, xs_, ys_, lon0_, e_ = S('this.n_'), S('this.c_'), S('this.xs_'), S('this.ys_'), S('this.longitude0_'), S('this.e_')
    if len(sinv) > 1:
        # exits in front of the inverse formulas: a constant answer under a test on a LENGTH (the distance to the cone apex, a projected coordinate) with an absolute constant depends on the unit the ellipsoid is
        # expressed in - the quantifier fixes eccentricities and angles, not the semi-major axis (on a unit ellipsoid every distance to the apex is below 1)
        from .. import earlyexit
        from ..tree import pp as _pp
        top_ = finv['body']['s'] if finv.get('body') and finv['body'].get('k') == 'Compound' else []
        exits_ = earlyexit.exits_before(top_, len(top_))
        decided = True
        for (node_, ctext_, tol_) in exits_:
            if tol_:
                R.violated('A5', 'LambertConverter::toWGS84:absolute-length-exit', 'toWGS84() returns a constant answer (`%s`) when `%s` (%s): the compared quantity is a length in the units of the ellipsoid, so the test '
                           'depends on how the ellipsoid is scaled - on an ellipsoid given in units of its semi-major axis (a = 1, same eccentricity, same parallels) every point of the projected zone satisfies it and the '
                           'inverse returns that constant instead of the latitude and longitude (off by tenths of a radian), while metric ellipsoids never reach it' % (
                               _pp(next((y_ for y_ in walk(node_.get('t')) if y_.get('k') == 'Return'), {}).get('e') or {})[:80], ctext_[:100], tol_), fx.rel(node_['loc']), 'E-STATE')
            else:
                decided = False
                R.undecided('A5', 'LambertConverter::toWGS84:exit[%s]' % ctext_[:80], 'an exit in front of the inverse formulas; whether points of the quantifier reach it is not decided')
        main_ = [st_ for st_ in sinv if all(not c_[2] for c_ in st_.cond)]
        if exits_ and len(main_) == 1:
            sinv = main_
    if len(sinv) != 1 or not isinstance(sinv[0].ret, tuple) or len(sinv[0].ret) != 2:
        R.undecided('A5', 'LambertConverter::toWGS84', 'inverse not readable as {latitude, longitude}')
        return
    latr, lonr = sinv[0].ret
    defs = rinv.atom_defs
    px, py = None, None
    for sy in set().union(*[v.free_symbols for v in defs.values()]) if defs else []:
        pass
    # substitute the forward map for position.x(), position.y()
    def subst(expr):
        m_ = {}
        for a in expr.atoms(sp.core.function.AppliedUndef):
            if str(a.func) == 'x':
                m_[a] = X
            elif str(a.func) == 'y':
                m_[a] = Y
        return expr.subs(m_)
    full = {S(k): subst(v) for k, v in defs.items()}
    # latitude argument
    if not (isinstance(latr, sp.Basic) and str(latr.func) == 'computeLatitude' and len(latr.args) == 2):
        R.undecided('A5', 'toWGS84:latitude', 'latitude is not computeLatitude(isometric latitude, e): %s' % latr)
    else:
        arg = latr.args[0]
        for _ in range(3):
            arg = arg.subs(full)
        arg = subst(arg)
        cpos = sp.Symbol('cabs', positive=True)
        arg2 = sp.simplify(arg)
        # rho = |c| exp(-nL): decide under both signs of c
        for sign, name in ((1, 'north'), (-1, 'south')):
            a2 = arg2.subs(c_, sign * cpos)
            a2 = sp.simplify(sp.expand_log(sp.simplify(a2), force=True))
            ok, res = zero(a2 - L)
            chk(R, ok, res if isinstance(res, sp.Basic) else a2 - L, 'A5', 'toWGS84:isometric-latitude' + ('' if not ok else '/%s' % name),
                'substituting the forward map, the isometric latitude handed to computeLatitude is %s instead of L for cones with c %s 0 (%s hemisphere)' % (
                    res if res is not None else a2, '>' if sign > 0 else '<', name), 'recovers L for c %s 0' % ('>' if sign > 0 else '<'), loc)
        R.check(latr.args[1] == e_, 'A5', 'toWGS84:eccentricity', 'computeLatitude receives %s as eccentricity' % latr.args[1], 'uses the converter eccentricity', loc, 'E-ALG')
    # longitude
    th = defs.get('theta')
    lonx = lonr.subs(S('theta'), sp.Symbol('TH', real=True)) if isinstance(lonr, sp.Basic) else None
    okform, rform = zero(lonx - (lon0_ + sp.Symbol('TH', real=True) / n_)) if lonx is not None else (False, None)
    chk(R, okform, rform, 'A5', 'toWGS84:longitude-form', 'longitude is %s, expected longitude0 + theta/n' % lonr, 'lon = lon0 + theta/n', loc, 'E-ALG')
    if th is None:
        R.undecided('A5', 'toWGS84:theta', 'theta atom not found')
    else:
        ths = subst(th)
        if ths.func == sp.atan:
            q = sp.simplify(ths.args[0])
            ok, res = zero(q - sp.tan(D))
            chk(R, ok, res, 'A5', 'toWGS84:theta', 'tan(theta) - tan(n dlon) = %s after substituting the forward map' % res, 'theta = n (lon - lon0)', loc, 'E-ALG')
        elif ths.func == sp.atan2:
            yy, xx = ths.args
            ok, res = zero(yy * sp.cos(D) - xx * sp.sin(D))
            radial = sp.simplify(xx / sp.cos(D))
            # atan2 returns n*dlon only if the common factor is positive; it is c exp(-nL): sign of c
            cpos = sp.Symbol('cabs', positive=True)
            neg = sp.simplify(radial.subs(c_, -cpos))
            bad = neg.is_negative or (sp.simplify(neg / cpos)).is_negative
            if ok and bad:
                R.violated('A5', 'toWGS84:theta', 'theta = atan2(%s, %s): both arguments carry the factor c exp(-n L), which is negative for southern cones, so atan2 returns n dlon +- pi and the '
                           'longitude is off by pi/|n| there (atan of the quotient cancels the sign)' % (th.args[0], th.args[1]), loc, 'E-ALG')
            elif ok:
                R.holds('A5', 'toWGS84:theta', 'atan2 arguments have a positive common factor', loc, 'E-ALG')
            else:
                chk(R, False, res, 'A5', 'toWGS84:theta', 'atan2 arguments are not (R sin(n dlon), R cos(n dlon)): residual %s' % res, '', loc)
        else:
            R.undecided('A5', 'toWGS84:theta', 'theta form not recognised: %s' % th)
    # latitude iteration fixed point
    check_latitude_iteration(fx, R, d, Ldef)


def check_latitude_iteration(fx, R, d, Ldef):
    f = d['flat']
    loc = fx.rel(f['loc'])
    loops = [x for x in walk(f['body']) if x.get('k') in ('For', 'While', 'Do')]
    if len(loops) != 1:
        R.undecided('A5', 'computeLatitude', '%d loops' % len(loops))
        return
    L_ = loops[0]
    rd = sym.Reader(fx)
    rd.atoms = {'alpha'}
    ctx = {'this': ('this',), 'fn': f, 'depth': 0}
    st = sym.State()
    ids = {}
    for s in walk(f['body']):
        if s.get('k') == 'Decl':
            for v in s['vars']:
                ids.setdefault(v['name'], v['id'])
    for p in f['params']:
        st.locals[p['id']] = S('arg:' + p['name'])
    phi = sp.Symbol('phi', real=True)
    st.locals[ids['latitude']] = phi
    body = [s for s in (L_['b']['s'] if L_['b']['k'] == 'Compound' else [L_['b']]) if s['k'] in ('Decl', 'Expr')]
    try:
        states = [st]
        for s in body:
            nxt = []
            for x in states:
                nxt += rd.ex(s, x, ctx)
            states = nxt
    except sym.Unsupported as u:
        R.undecided('A5', 'computeLatitude', 'symbolic reader: %s' % u)
        return
    if len(states) != 1:
        R.undecided('A5', 'computeLatitude', 'loop body forks')
        return
    new = states[0].locals.get(ids['latitude'])
    alpha = rd.atom_defs.get('alpha')
    if not isinstance(new, sp.Basic) or alpha is None:
        R.undecided('A5', 'computeLatitude', 'update not interpretable')
        return
    Lsym, e = S('arg:isometricLatitude'), S('arg:e')
    # with L = L(phi):  exp(L) = tan(pi/4+phi/2) * q^(e/2),  alpha = q^(-e/2)   (q = (1-e s)/(1+e s) > 0)
    q = sp.Symbol('q', positive=True)
    T = sp.Symbol('T', positive=True)     # tan(pi/4 + phi/2) > 0
    lat = S('wgs84Coordinates.latitude')
    Lphi = Ldef.subs({lat: phi, S('this.e_'): e})
    expL = sp.exp(Lphi)
    ratio = (1 - e * sp.sin(phi)) / (1 + e * sp.sin(phi))
    expL_q = sp.simplify(expL).subs(sp.tan(phi / 2 + sp.pi / 4), T)
    expL_q = expL_q.subs(ratio, q)
    alpha_q = alpha.subs((1 + e * sp.sin(phi)) / (1 - e * sp.sin(phi)), 1 / q).subs(ratio, q)
    upd = new.subs(S('alpha'), alpha_q).subs(sp.exp(Lsym), expL_q)
    target = 2 * sp.atan(T) - sp.pi / 2
    res = sp.simplify(sp.powsimp(sp.powdenest(upd - target, force=True), force=True))
    if res != 0:
        # try recognising 2*atan(X) - pi/2 with X -> T
        res = sp.simplify(sp.expand_power_base(res, force=True))
    # A6 stopping tolerance: the update contracts with factor about e^2 <= 0.01, so stopping at |delta| < tol leaves at most tol*q/(1-q)
    tolnode = None
    for x in walk(L_['b']):
        if x.get('k') == 'If':
            cn = strip_casts_(x['c'])
            if cn.get('k') == 'Bin' and cn['op'] in ('<', '<='):
                tolnode = cn['r']
    from ..tree import const_value as _cv
    tol = _cv(tolnode) if tolnode is not None else None
    if tol is None:
        R.undecided('A6', 'computeLatitude:tolerance', 'exit test `|delta| < tolerance` with a folded constant not found')
    else:
        qf = 0.01
        bound = 1e-11 * (1 - qf) / qf
        ulp = 2.220446049250313e-16
        exits = [x for x in walk(L_['b']) if x.get('k') in ('Break', 'Return')]
        if 0 < tol <= ulp and len(exits) == 1:
            R.violated('A6', 'computeLatitude:tolerance-below-resolution', 'the only exit of the latitude iteration is |delta| < %g, not above the spacing %.3g of doubles for latitudes of 1 rad and more (the quantifier '
                       'reaches 83 deg): it can only be met by an exact fixed point; when rounding makes the update alternate between two adjacent doubles the loop never ends' % (tol, ulp), loc, 'E-INT')
        elif len(exits) == 1:
            R.holds('A6', 'computeLatitude:tolerance-below-resolution', 'tolerance %g is above the spacing of doubles at pi/2 (%.3g)' % (tol, ulp), loc, 'E-INT')
        R.check(0 < tol <= bound, 'A6', 'computeLatitude:tolerance', 'the latitude iteration stops at |delta| < %g; with contraction factor about e^2 <= 0.01 the error can reach %.3g rad, above the 1e-11 rad of the '
                'statement (tolerance must not exceed %.3g)' % (tol, tol * qf / (1 - qf), bound), 'tolerance %g <= %.3g' % (tol, bound), loc, 'E-INT')
    chk(R, res == 0, res, 'A5', 'computeLatitude:fixed-point', 'with L = L(phi) the update gives lat\' - phi = %s (should vanish: 2 atan(tan(pi/4+phi/2)) - pi/2 = phi)' % res,
            'true latitude is a fixed point of the update', loc, 'E-ALG')
