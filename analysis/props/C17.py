"""C17 - rate monitoring and rate check-ups follow the stamped-event history.

Rules (symbolic per-path reading of initialize/update/timeout and of the CheckupRate wrappers, everything inlined)
  M1  window  W = min(max(trunc(2*rate), 4), 64); the expected-rate constructor goes through it; constructed state: rate 0, no data
  M2  update(): period = stamp - last stamp is pushed and added to the running sum; exactly when the queue holds W+1 periods the
      oldest is subtracted *and* popped (same queue state) and rate*sum = 1e9*W is stored; the stored rate is what is returned;
      the last stamp becomes the new stamp.  A path that reaches the full window without storing the rate is accepted only if
      nothing else ever writes the rate (otherwise it can be stale: M2b)
  M3  timeout(): with data, true  <=>  elapsed nanoseconds since the last stamp > 5e8 (decided by evaluating the extracted
      predicate, integer division included, on witnesses around the boundary: ..., 5e8, 5e8+1, 5e8+999999, 5.01e8, ...);
      false in the constructed state; the true path stores rate 0, the false path writes nothing
  M4  wiring: CheckupRate::evaluate passes the rate returned by update() to the check-up; heartBeatCallback calls
      checkup.timeout() exactly on the timeout path and returns its negation; getReport returns the check-up's report;
      the constructor's initial diagnostic is ERROR "no data received from <name>" and the check-up is built on <name>_rate, rate, epsilon
  M5  the wrapped check-up classifies the rate by its threshold with the boundaries the statement gives (equal-to: OK iff
      |rate - target| <= epsilon, greater-than: OK iff rate > minimum - epsilon), message and printed value agreeing: C18's exhaustive
      cell evaluation applied to CheckupEqualTo<double> and CheckupGreaterThan<double>, the types CheckupRate is instantiated with
Not decided: numeric rate values of concrete jittered histories beyond the formula."""
import sympy as sp
from .. import alg
from .. import sym
from ..tree import sx, walk, pp, short_fn
from .C18 import hook, STATUS, MESSAGE, VALUE
from .C20 import deep_unwrap

LEVEL = 'other'
UNITS = ['src/monitoring/RateMonitoring.cpp', 'src/diagnostics/CheckupRate.cpp']
ENGINES = 'E-STATE + E-ORD + E-ALG over romea-facts'
TECHNIQUE = 'members refreshed on demand under a flag: every method that changes the source must arm it (sweep H15), type of the running sum of periods, heartbeats stamped before the last datum with unsigned conversion modelled, timeout() stepped in IEEE arithmetic at the 0.5 s boundary for absolute times to 5000 s, dropped stamps on witness periods, state left by the timeout path (second heartbeat), members read by the timeout predicate take their constructor value over expected rates of the quantifier, numeric check-up arguments on (rate, tolerance) witnesses, bounded history from the constructed monitor (update read W+6 times with symbolic periods on a concrete store), bit width of every integer that carries a period, sweep of every function read (and its in-repo callees) for frozen function-local statics, single precision inside double computations, lossy copy constructors, presence- or argument-keyed member caches, reference members bound to constructor arguments, loop accumulators that are members, members derived in the constructor and not refreshed by setters, results returned by reference to a member buffer, members filled from an argument under a condition that ignores it, hidden non-virtual base members, self-bound reference members, reductions that accumulate in float; every path of update() establishes the has-data state the timeout predicate reads; symbolic per-path reading of the update/timeout recurrences (exact formulas), paired queue/sum rule, boundary-witness evaluation of the extracted timeout predicate, dataflow wiring of the rate into the check-up'
EXPLANATION = ('RateMonitoring::initialize/update/timeout and the CheckupRate wrappers are read symbolically with all callees inlined; the window constant, the paired '
               'push/pop/sum update, the rate formula, the timeout predicate (on integer nanoseconds, boundary witnesses) and the wiring of the monitored rate into the '
               'check-up and of the timeout into STALE are decided on the extracted formulas.')
ASSUMPTIONS = ['strictly increasing data stamps (quantifier); std::queue push/pop/front/size semantics; std::chrono durations are integer nanoseconds',
               'exact arithmetic for the rate formula; the double division itself is not analysed']
LEVEL_TEXT = ('The step functions of the monitor are constrained for every history at once: window size, the queue/sum recurrence, the formula of the stored rate, the exact '
              'timeout boundary and the report wiring. Concrete rate values of a particular jittered history are consequences of these and of floating-point division (not decided).')
LEVEL_NOTE = 'Not decided: floating-point value of the rate for concrete histories. Trusted: clang front end, extractor, symbolic reader, sympy.'

Q = 'romea::core::RateMonitoring::'


def fld(*p):
    return ('this',) + p


def run(fx, R, tier):
    fi, fu, ft, fg = fx.one(Q + 'initialize'), fx.one(Q + 'update'), fx.one(Q + 'timeout'), fx.one(Q + 'getRate')
    if None in (fi, fu, ft, fg):
        R.undecided('M1', 'RateMonitoring', 'anchor vanished (initialize/update/timeout/getRate)')
        return
    R.used(fi, fu, ft, fg)
    R.floor('M2', 8)
    R.floor('M3', 10)
    R.floor('M4', 8)
    try:
        check_window(fx, R, fi)
        cst = ctor_state(fx, R)
    except sym.Unsupported as u:
        R.undecided('M1', 'RateMonitoring', 'symbolic reader: %s' % u)
        cst = None
    for (rule_, fn_) in (('M2', lambda: check_update(fx, R, fu, ft)), ('M3', lambda: check_timeout(fx, R, ft, cst)), ('M6', lambda: check_history(fx, R, fu)), ('M7', lambda: check_period_width(fx, R, fu)),
                         ('M4', lambda: check_wiring(fx, R)), ('M5', lambda: check_classification(fx, R))):
        try:
            fn_()
        except sym.Unsupported as u:
            R.undecided(rule_, 'RateMonitoring', 'symbolic reader: %s' % u)


def check_window(fx, R, fi):
    sts = sym.Reader(fx).run(fi)
    r = sp.Symbol('arg:expectedRate', real=True)
    want = sp.Min(64, sp.Max(4, sp.Function('trunc')(2 * r)))
    ok = len(sts) == 1 and sts[0].fields.get(fld('windowSize_')) == want
    R.check(ok, 'M1', 'RateMonitoring::initialize:window', 'window size is %s, the statement requires clamp(2*rate, 4, 64)' % [s.fields.get(fld('windowSize_')) for s in sts],
            'W = min(max(trunc(2*rate),4),64)', fx.rel(fi['loc']), 'E-ALG')


def ctor_state(fx, R):
    ctors = [f for f in fx.functions.values() if f.get('ctor') and f.get('cls') == 'romea::core::RateMonitoring' and not f.get('copyctor')]
    dflt = [f for f in ctors if not f['params']]
    rate = [f for f in ctors if len(f['params']) == 1]
    if len(dflt) != 1 or len(rate) != 1:
        R.undecided('M1', 'RateMonitoring:constructors', 'default / expected-rate constructors not found')
        return None
    R.used(dflt[0], rate[0])
    st = sym.Reader(fx).run(dflt[0])
    c = st[0] if len(st) == 1 else None
    ok = c is not None and c.fields.get(fld('rate_')) == 0 and c.fields.get(fld('periodsSum_')) == 0
    R.check(ok, 'M1', 'RateMonitoring:constructed-state', 'constructed state is not rate 0 / sum 0: %s' % (c.fields if c else None), 'rate 0, sum 0, no data', fx.rel(dflt[0]['loc']), 'E-STATE')
    # the expected-rate constructor delegates to the default one and calls initialize(expectedRate)
    deleg = any(i.get('delegating') for i in rate[0].get('inits', []))
    calls = [deep_unwrap(sx(x['e'])) for x in walk(rate[0]['body']) if x.get('k') == 'Expr']
    R.form(deleg and calls == [('.initialize', 'this', 'expectedRate')], 'M1', 'RateMonitoring:rate-constructor',
            'RateMonitoring(expectedRate) does not delegate to the default constructor and call initialize(expectedRate): %s' % (calls,),
            'delegates + initialize(expectedRate)', fx.rel(rate[0]['loc']), 'E-STATE')
    return c


def _ns_domain(s_):
    """witness ranges (in hundredths) for the nanosecond quantities of the monitor: stamps and sums far above the window length"""
    n = s_.name
    if 'windowSize' in n:
        return (400, 6400)
    if 'periodsSum_' in n:
        return (5 * 10 ** 10, 9 * 10 ** 10)
    if 'duration' in n.lower() or 'front' in n or 'fn:' in n:
        return (10 ** 9, 4 * 10 ** 9)
    return None


def check_update(fx, R, fu, ft):
    rd = sym.Reader(fx)
    paths = rd.run(fu)
    W = sp.Symbol('this.windowSize_', integer=True)
    d = [s for s in paths[0].fields.get(fld('lastDuration_', 'value_'), sp.Integer(0)).free_symbols if s.name == 'arg:duration'] if paths else []
    full, part = [], []
    size0 = sp.Symbol('size(this.periods_)', integer=True, nonnegative=True)
    # paths that drop the stamp: neither the period queue nor the last stamp is touched.  Data stamps are strictly increasing with periods from 1 microsecond (quantifier): update() is stepped in integer
    # nanoseconds on witness periods; a stamp may only be ignored if no witness period reaches that return
    dropping = [st for st in paths if not (isinstance(st.fields.get(fld('periods_')), sym.Cont) and st.fields.get(fld('periods_')).ops)
                and (lambda v_: v_ is None or (isinstance(v_, sp.Symbol) and v_.name == 'this.lastDuration_.value_'))(st.fields.get(fld('lastDuration_', 'value_')))]
    if dropping:
        from .. import mini
        from .C20 import deep_unwrap as _du
        pn_ = fu['params'][0]['name']
        dropped = []
        for per in (1000, 250000, 999999, 1000000, 5000000, 10 ** 10):
            S_ = mini.Step(_du)
            touched = []
            S_.hooks['.count'] = lambda t, env: S_.ev(t[1], env)
            S_.hooks['.load'] = lambda t, env: S_.ev(t[1], env)
            for h_ in ('.push', '.push_back', '.emplace', '.emplace_back', '.store', '.pop', '.pop_front'):
                S_.hooks[h_] = lambda t, env, h_=h_: touched.append(h_) or 0
            S_.fallback = mini.inliner(fx, S_)
            t0 = 3 * 10 ** 9 + 17
            env_ = {pn_: t0 + per, 'this.lastDuration_': t0, 'this.lastPeriod_': 4000000, 'this.hasData_': True, 'this.rate_': 10.0, 'this.periodsSum_': 4 * 10 ** 8, 'this.windowSize_': 20}
            try:
                S_.call(fu['body'], env_)
                if not any(h_.startswith(('.push', '.emplace')) for h_ in touched):
                    dropped.append(per)
            except mini.Unsupported:
                pass                    # the step evaluator reached the queue handling: the stamp is not dropped before it
        desc_ = ' && '.join(('' if c[2] else '!') + '(' + c[0] + ')' for c in dropping[0].cond)
        if dropped:
            R.violated('M2', 'RateMonitoring::update:stamp-dropped', 'on the path [%s] update() returns without queueing the period and without advancing the last stamp; stepping update() in integer nanoseconds, a stamp '
                       '%s ns after the previous one takes that return (periods from 1 microsecond are inside the quantifier): the stamp is not counted towards the W+1 stamps and the rate is no longer W over the time '
                       'spanned by the last W periods' % (desc_[:200], ', '.join(str(p_) for p_ in dropped[:3])), fx.rel(fu['loc']), 'E-STEP')
            return
        paths = [st for st in paths if st not in dropping]
        R.holds('M2', 'RateMonitoring::update:no-stamp-dropped', 'a return in front of the queue is taken by none of the witness periods (1 us .. 10 s)', fx.rel(fu['loc']), 'E-STEP')
    for st in paths:
        g = [c for c in st.cond if isinstance(c[1], sp.Basic) and size0 in c[1].free_symbols]
        if len(g) != 1:
            R.undecided('M2', 'RateMonitoring::update:guard', 'path without exactly one window-size test: %s' % [c[0] for c in st.cond])
            return
        rel = g[0][1] if g[0][2] else sp.Not(g[0][1])
        is_full = sp.simplify(rel) in (sp.Eq(size0, W), sp.Eq(W, size0), sp.Eq(size0 + 1, W + 1))
        is_part = sp.simplify(rel) in (sp.Ne(size0, W), sp.Ne(W, size0), sp.Ne(size0 + 1, W + 1))
        if not (is_full or is_part):
            R.violated('M2', 'RateMonitoring::update:guard', 'the rate is (re)computed under `%s`, not exactly when the queue holds W+1 periods after the push' % g[0][0], fx.rel(fu['loc']), 'E-STATE')
            return
        (full if is_full else part).append(st)
    R.check(bool(full) and bool(part), 'M2', 'RateMonitoring::update:guard', 'full-window and filling paths not both present', 'rate computed iff W+1 periods queued', fx.rel(fu['loc']), 'E-STATE')
    other_writers = writers_of_rate(fx, ('update',))
    for n, st in enumerate(paths):
        tag = ('full' if st in full else 'filling') + str(n)
        inst = 'RateMonitoring::update:' + tag
        q = st.fields.get(fld('periods_'))
        S1 = st.fields.get(fld('periodsSum_'))
        S0 = next((y_ for y_ in (S1.free_symbols if isinstance(S1, sp.Basic) else []) if y_.name == 'this.periodsSum_'), sp.Symbol('this.periodsSum_', integer=True))     # the reader's own symbol (its assumptions follow the field's type)
        last0 = sp.Symbol('this.lastDuration_.value_', real=True)
        stamp = [s for s in (S1.free_symbols if isinstance(S1, sp.Basic) else []) if s.name == 'arg:duration']
        if not isinstance(q, sym.Cont) or not stamp or S1 is None:
            R.undecided('M2', inst, 'queue / sum / stamp not found in the final state')
            continue
        stamp = stamp[0]
        lastsym = [s for s in S1.free_symbols if s.name == 'this.lastDuration_.value_']
        p = stamp - (lastsym[0] if lastsym else last0)
        pushes = [o for o in q.ops if o[0] == 'push']
        pops = [o for o in q.ops if o[0] == 'pop']
        okp = len(pushes) == 1 and sp.simplify(pushes[0][1] - p) == 0 and q.ops[0][0] == 'push'
        R.check(okp, 'M2', inst + ':push', 'the period pushed is %s, expected stamp - last stamp (once, before any pop)' % [o[1:] for o in pushes], 'period = stamp - last stamp pushed once',
                fx.rel(fu['loc']), 'E-STATE')
        R.check(sp.simplify(st.fields.get(fld('lastDuration_', 'value_'), sp.nan) - stamp) == 0, 'M2', inst + ':last-stamp', 'last stamp becomes %s' % st.fields.get(fld('lastDuration_', 'value_')),
                'last stamp <- stamp', fx.rel(fu['loc']), 'E-STATE')
        rate1 = st.fields.get(fld('rate_'))
        rate_written = rate1 is not None and not (isinstance(rate1, sp.Symbol) and rate1.name == 'this.rate_')
        if st in full:
            front = sp.Function('front')(sym.Cont(q.base, q.ops[:1]).token())
            oks = len(pops) == 1 and sp.simplify(S1 - (S0 + p - front)) == 0
            R.check(oks, 'M2', inst + ':pop-sum', 'on the full-window path the queue ops are %s and the sum becomes %s; expected one pop and sum + period - front(queue after push)' % (
                [o[0] for o in q.ops], S1), 'sum += period - oldest ; pop once', fx.rel(fu['loc']), 'E-STATE')
            if rate_written:
                res = sp.simplify(rate1 * S1 - 10 ** 9 * W)
                alg.check_zero(R, res, 'M2', inst + ':formula', 'stored rate %s: rate*sum - 1e9*W = %s (should vanish: W periods over their total time)' % (rate1, res),
                               'rate * sum(last W periods) = 1e9 * W', fx.rel(fu['loc']), domain=_ns_domain)
            else:
                desc = ' && '.join(('' if c[2] else '!') + '(' + c[0] + ')' for c in st.cond)
                if other_writers:
                    R.violated('M2', 'RateMonitoring::update:skips-rate', 'path [%s] reaches a full window without storing the rate, but %s also writes the rate: after it the rate stays stale '
                               '(e.g. steady stream, timeout() forces 0, next on-time stamp leaves 0)' % (desc, ', '.join(other_writers)), fx.rel(fu['loc']), 'E-STATE')
                else:
                    R.undecided('M2', inst + ':skips-rate', 'path [%s] skips the rate store; no other writer of the rate found, coherence not decided' % desc)
        else:
            R.check(not pops and sp.simplify(S1 - (S0 + p)) == 0, 'M2', inst + ':sum', 'filling path: queue ops %s, sum %s' % ([o[0] for o in q.ops], S1), 'sum += period, nothing popped',
                    fx.rel(fu['loc']), 'E-STATE')
            R.check(not rate_written, 'M2', inst + ':rate', 'the rate is written (%s) before W+1 stamps have been seen' % rate1, 'rate untouched while filling', fx.rel(fu['loc']), 'E-STATE')
        want_ret = rate1 if rate_written else sp.Symbol('this.rate_', real=True)
        R.check(st.ret is not None and sp.simplify(st.ret - want_ret) == 0, 'M2', inst + ':return', 'update() returns %s, not the current rate %s' % (st.ret, want_ret),
                'returns the current rate', fx.rel(fu['loc']), 'E-STATE')
    # the running sum: a fact about its TYPE.  It is updated by += period and -= oldest period over the whole life of the monitor; only in an integer type do the amounts added and removed cancel exactly.
    # The first period queued is the first stamp minus the initial last stamp (0): for an epoch-based clock it is about 1.7e18 ns, far beyond the 2^53 a double holds exactly
    rec = fx.records.get(Q.rstrip(':') if Q.endswith('::') and False else 'romea::core::RateMonitoring') or {}
    ft_ = next((f_ for f_ in rec.get('fields', []) if f_['name'] == 'periodsSum_'), None)
    if ft_ is not None:
        ty = ft_.get('t') or {}
        if ty.get('c') == 'fp':
            R.violated('M2', 'RateMonitoring:running-sum:floating', 'the running sum of the periods is a `%s`, updated by `+= period` and `-= oldest period` for the life of the monitor.  The first period queued is the '
                       'first stamp minus the initial last stamp 0, i.e. the stamp itself: with an epoch-based clock (1.7e18 ns; anything beyond 2^53 ns = 104 days) every addition made while that entry is in the window '
                       'is rounded to a multiple of 256 ns, and when the entry is removed the roundings stay in the sum for good - every later rate is W over a time span that is off by that bias, not "exactly W divided '
                       'by the time spanned by the last W periods" (an integer sum cancels exactly; stamps are not bounded by the quantifier, only periods are)' % ty.get('s'), fx.rel(fu['loc']), 'E-INT')
        elif ty.get('c') == 'int' and int(ty.get('bits') or 64) < 64:
            R.violated('M2', 'RateMonitoring:running-sum:width', 'the running sum of the periods is a `%s` (%s bits): 64 periods of up to 10 s are 6.4e11 ns, and the first period queued is the first stamp itself' % (
                ty.get('s'), ty.get('bits')), fx.rel(fu['loc']), 'E-INT')
        elif ty.get('c') == 'int':
            R.holds('M2', 'RateMonitoring:running-sum:type', 'the running sum is a %s-bit integer: additions and removals cancel exactly' % ty.get('bits'), fx.rel(fu['loc']), 'E-INT')
        else:
            R.undecided('M2', 'RateMonitoring:running-sum:type', 'the running sum has type %s' % ty.get('s'))
    fg = fx.one(Q + 'getRate')
    sg = sym.Reader(fx).run(fg)
    R.form(len(sg) == 1 and isinstance(sg[0].ret, sp.Symbol) and sg[0].ret.name == 'this.rate_', 'M2', 'RateMonitoring::getRate', 'getRate returns %s' % [s.ret for s in sg],
            'returns the stored rate', fx.rel(fg['loc']), 'E-STATE')


def check_period_width(fx, R, fu):
    """M7: a period of the quantifier is up to 10 s = 1e10 ns (34 bits).  Every integer that carries a period - the value returned by
    durationToNanoSecond, the locals initialised from it, the elements of the period store, the running sum - must be 64 bits wide."""
    import re
    from ..tree import strip_casts
    rec = fx.records.get('romea::core::RateMonitoring') or {}
    bad = []
    for fl_ in rec.get('fields', []):
        ts = (fl_['t'].get('s') or '')
        if fl_['name'] in ('periods_', 'periodsSum_', 'lastPeriodInNanoSecond_') or 'period' in fl_['name'].lower():
            mm = re.search(r'<\s*((?:unsigned )?(?:int|short|char|long long|long|std::int\d+_t|int\d+_t|unsigned))\b', ts)
            elem = mm.group(1) if mm else (ts if fl_['t'].get('c') == 'int' else None)
            if elem in ('int', 'unsigned int', 'unsigned', 'short', 'unsigned short', 'char', 'int32_t', 'std::int32_t', 'int16_t', 'std::int16_t') or (fl_['t'].get('c') == 'int' and (fl_['t'].get('bits') or 64) < 64):
                bad.append(('the member %s has type %s' % (fl_['name'], ts), rec.get('loc')))
    tainted = set()
    for x in walk(fu['body']):
        if isinstance(x, dict) and x.get('k') == 'Decl':
            for v in x['vars']:
                init = v.get('init')
                if init is None:
                    continue
                src = any(isinstance(y, dict) and ((y.get('k') == 'Call' and 'durationToNanoSecond' in (y.get('fn') or '')) or (y.get('k') == 'Ref' and y.get('id') in tainted)) for y in walk(init))
                if src:
                    tainted.add(v['id'])
                    if v['t'].get('c') == 'int' and (v['t'].get('bits') or 64) < 64:
                        bad.append(('the local %s (%s) receives a period in nanoseconds' % (v['name'], v['t'].get('s')), v.get('loc')))
        if isinstance(x, dict) and x.get('k') == 'Cast' and x.get('ck') == 'IntegralCast' and (x.get('t') or {}).get('bits', 64) < 64 and 'cv' not in x:
            if any(isinstance(y, dict) and ((y.get('k') == 'Call' and 'durationToNanoSecond' in (y.get('fn') or '')) or (y.get('k') == 'Ref' and y.get('id') in tainted)) for y in walk(x.get('e'))):
                bad.append(('a period in nanoseconds is converted to %s' % (x['t'].get('s'),), x.get('loc')))
    if bad:
        R.violated('M7', 'RateMonitoring:period-width', '%s: periods of the quantifier go up to 10 s = 1e10 ns, which needs 34 bits; in 32 bits every period above 2.147 s wraps (modulo 4.295 s), the running sum '
                   'and the rate are wrong - possibly negative - for the W stamps that period stays in the window' % bad[0][0], fx.rel(bad[0][1] or fu['loc']), 'E-INT')
    else:
        R.holds('M7', 'RateMonitoring:period-width', 'every integer that carries a period (store elements, running sum, locals of update) is 64 bits wide', fx.rel(fu['loc']), 'E-INT')


def check_history(fx, R, fu):
    """M6: bounded history from the constructed object.  The default constructor is read, the window is set to W (4, 20 and 64: both clamps and a
    value between), the period store starts with its constructed content (an empty queue / a zeroed fixed array), and update() is read W+6 times in
    a row with stamps t_k = p_1 + ... + p_k (p_i symbolic positive nanoseconds).  After stamp k the stored rate must be 0 for k <= W and
    1e9 * W / (p_{k-W+1} + ... + p_k) afterwards.  Whatever the store is (queue, ring buffer, ...), its indexes are concrete here."""
    import re
    ctors = [f for f in fx.functions.values() if f.get('ctor') and f.get('cls') == 'romea::core::RateMonitoring' and not f.get('copyctor') and not f['params']]
    rec = fx.records.get('romea::core::RateMonitoring') or {}
    if len(ctors) != 1:
        R.undecided('M6', 'RateMonitoring:history', 'default constructor not found')
        return
    ftypes = {fl_['name']: fl_['t'].get('s', '') for fl_ in rec.get('fields', [])}
    for W in (4, 20, 64):
        inst = 'RateMonitoring:history(W=%d)' % W
        rd = sym.Reader(fx)
        try:
            sts = rd.run(ctors[0])
            if len(sts) != 1:
                R.undecided('M6', inst, 'constructor forks')
                continue
            st = sts[0]
            st.fields[fld('windowSize_')] = sp.Integer(W)
            for k_, v_ in list(st.fields.items()):
                if isinstance(v_, sym.Opaque) and re.fullmatch(r'std::chrono::duration<[^{}()]*>(::zero\(\)|\{\})', v_.desc.strip()):
                    st.fields[k_] = sp.Integer(0)          # a zero / value-initialised duration is 0 ns
            for name, ts in ftypes.items():
                ts = ts.replace('const ', '')
                if ts.startswith(sym.CONTAINER_TYPES):
                    st.fields[fld(name)] = sym.Seq('this.' + name, [])
                mm = re.match(r'std::array<[^,]+, (\d+)>', ts)
                if mm:
                    st.fields[fld(name)] = sym.Seq('this.' + name, [sp.Integer(0)] * int(mm.group(1)), fixed=True)
            ps = [sp.Symbol('p%d' % i, integer=True, positive=True) for i in range(1, W + 7)]
            bad = None
            for k in range(1, W + 7):
                t_k = sum(ps[:k])
                nxt = rd.run(fu, args=[t_k], state=st)
                nxt = [x for x in nxt if all(c[2] or 'windowSize_ != 0' not in c[0] for c in x.cond)]
                if len(nxt) != 1:
                    R.undecided('M6', inst, 'update() forks on stamp %d: %s' % (k, [[c[0] for c in x.cond][-2:] for x in nxt][:3]))
                    bad = 'fork'
                    break
                st = nxt[0]
                st.cond = []
                rate = st.fields.get(fld('rate_'))
                ret = st.ret
                want = sp.Integer(0) if k <= W else sp.Integer(10 ** 9) * W / sum(ps[k - W:k])
                for (what, got) in (('stored rate', rate), ('returned rate', ret)):
                    if not isinstance(got, sp.Basic):
                        R.undecided('M6', inst, '%s after stamp %d not readable' % (what, k))
                        bad = 'unreadable'
                        break
                    num_, _ = sp.fraction(sp.together(got - want))
                    if sp.expand(num_) != 0:
                        v = alg.decide_zero(got - want, domain=lambda s_: (10 ** 8, 10 ** 9) if s_.name.startswith('p') else None)
                        if v[0] == 'nonzero':
                            R.violated('M6', 'RateMonitoring:history', 'with window W = %d, after %d stamps (periods p1..p%d) the %s is %s; the statement requires %s (%s)' % (
                                W, k, k, what, str(got)[:160], str(want)[:120], '0 until W+1 stamps have been seen' if k <= W else 'W over the time spanned by the last W periods'),
                                fx.rel(fu['loc']), 'E-ALG')
                            bad = 'violated'
                        else:
                            R.undecided('M6', inst, '%s after stamp %d differs in form from the required value: %s' % (what, k, v[1]))
                            bad = 'undecided'
                        break
                if bad:
                    break
            if not bad:
                R.holds('M6', inst, 'rate 0 for the first %d stamps, then 1e9*W/(last W periods) for stamps %d..%d, from the constructed object' % (W, W + 1, W + 6), fx.rel(fu['loc']), 'E-ALG')
        except sym.Unsupported as u:
            R.undecided('M6', inst, 'not interpretable: %s' % u)


def writers_of_rate(fx, exclude):
    out = []
    rec = fx.records.get('romea::core::RateMonitoring')
    for mth in rec['methods']:
        if mth.get('ctor') or mth['name'] in exclude or mth['name'].startswith('~') or mth.get('implicit') or mth['name'] == 'initialize':
            continue
        for fb in fx.fn(mth['q']):
            if fb.get('body') is None:
                continue
            try:
                for st in sym.Reader(fx).run(fb):
                    v = st.fields.get(fld('rate_'))
                    if v is not None and not (isinstance(v, sp.Symbol) and v.name == 'this.rate_'):
                        out.append(mth['name'] + '()')
                        break
            except sym.Unsupported:
                pass
    return sorted(set(out))


WITNESS_NS = [0, 1, 499999999, 500000000, 500000001, 500000999, 500400000, 500999999, 501000000, 501000001, 999999999, 1000000000, 5000000000]


def check_timeout(fx, R, ft, cst):
    paths = sym.Reader(fx).run(ft)
    tp = [s for s in paths if s.ret == 1]
    fp = [s for s in paths if s.ret == 0]
    if len(paths) != 2 or len(tp) != 1 or len(fp) != 1:
        R.undecided('M3', 'RateMonitoring::timeout', 'expected one true path and one false path, got returns %s' % [s.ret for s in paths])
        return
    tp, fp = tp[0], fp[0]
    cond = tp.cond[0][1] if len(tp.cond) == 1 else None
    if not isinstance(cond, sp.Basic):
        R.undecided('M3', 'RateMonitoring::timeout:predicate', 'timeout predicate not interpretable: %s' % [c[0] for c in tp.cond])
        return
    syms = {s.name: s for s in cond.free_symbols}
    stamp, last = syms.get('arg:duration'), syms.get('this.lastDuration_.value_')
    state_syms = [s for n, s in syms.items() if n not in ('arg:duration', 'this.lastDuration_.value_')]
    if stamp is None or last is None:
        R.violated('M3', 'RateMonitoring::timeout:predicate', 'the timeout predicate `%s` does not compare the heartbeat stamp with the last data stamp' % tp.cond[0][0], fx.rel(ft['loc']), 'E-ORD')
        return

    # a member the predicate reads besides the stamps (a configured delay ...) takes the value the expected-rate constructor gives it, for expected rates over the quantifier [0.5, 200] Hz
    config = {}
    other = [s for s in state_syms if s.name not in ('this.hasData_', 'size(this.periods_)')]
    if other:
        rc = [f for f in fx.functions.values() if f.get('ctor') and f.get('cls') == 'romea::core::RateMonitoring' and len(f['params']) == 1 and not f.get('copyctor')]
        try:
            cs = sym.Reader(fx).run(rc[0]) if len(rc) == 1 else []
        except sym.Unsupported:
            cs = []
        if len(cs) == 1:
            for s in other:
                v = cs[0].fields.get(tuple(['this'] + s.name.split('.')[1:]))
                if isinstance(v, sp.Basic) and all(y.name == 'arg:' + rc[0]['params'][0]['name'] for y in v.free_symbols):
                    config[s] = v
    RATES = [sp.Rational(1, 2), 1, 2, sp.Rational(39, 10), 4, 10, 200] if config else [None]

    def evaluate(x, has_data, rate=None):
        sub = {stamp: sp.Integer(x), last: sp.Integer(0)}
        for s in state_syms:
            if s.name == 'this.hasData_':
                sub[s] = sp.Integer(1 if has_data else 0)
            elif s.name == 'size(this.periods_)':
                sub[s] = sp.Integer(3 if has_data else 0)
            elif s in config and rate is not None:
                cv = config[s].subs({y: sp.nsimplify(rate) for y in config[s].free_symbols})
                cv = cv.replace(lambda t: t.func == sp.Function('idiv'), lambda t: sp.floor(t.args[0] / t.args[1])).replace(lambda t: t.func == sp.Function('trunc'), lambda t: sp.floor(t.args[0]))
                cv = sp.nsimplify(sp.simplify(cv), rational=True)
                if not cv.is_number:
                    return None
                sub[s] = cv
            else:
                return None
        v = cond.subs(sub)
        v = v.replace(lambda t: t.func == sp.Function('idiv'), lambda t: sp.floor(t.args[0] / t.args[1]))
        v = v.replace(lambda t: t.func == sp.Function('trunc'), lambda t: sp.floor(t.args[0]))
        v = sp.simplify(v)
        if v in (sp.true, sp.false):
            return bool(v)
        return None
    for x in WITNESS_NS + ([800000000, 1900000000, 3900000000] if config else []):
        inst = 'RateMonitoring::timeout:elapsed=%dns' % x
        gots = [(r_, evaluate(x, True, r_)) for r_ in RATES]
        if any(g is None for (_r, g) in gots):
            R.undecided('M3', inst, 'predicate not evaluable' + (' (it reads %s, whose configured value is not readable)' % [s.name for s in other if s not in config] if other else ''))
            continue
        want = x > 500000000
        bad = [(r_, g) for (r_, g) in gots if g != want]
        if bad:
            r_, got = bad[0]
            R.violated('M3', 'RateMonitoring::timeout:boundary', 'a heartbeat %d ns after the last stamp %s a timeout%s; the statement requires timeout <=> elapsed > 0.5 s whatever the expected rate '
                       '(extracted predicate: %s%s)' % (x, 'reports' if got else 'does not report', ' on a monitor built for an expected rate of %s Hz' % r_ if r_ is not None else '', tp.cond[0][0],
                                                        ''.join('; %s = %s' % (k_.name, v_) for k_, v_ in config.items())), fx.rel(ft['loc']), 'E-ORD')
        else:
            R.holds('M3', inst, 'timeout=%s%s' % (want, ' for expected rates %s' % RATES if config else ''), fx.rel(ft['loc']), 'E-ORD')
    # ---- the predicate in IEEE arithmetic: stamps are integer nanoseconds, the comparison is made on a double.  The body of timeout() is stepped (E-STEP: integers stay integers, every floating operation is
    # the double operation) for heartbeats 1 ns before, exactly at and 1 ns after 0.5 s, at absolute times between 7.5 s and 5000 s (500 stamps of up to 10 s): exactly 0.5 s is not "more than 0.5 s"
    from .. import mini
    from .C20 import deep_unwrap as _du
    S_ = mini.Step(_du)
    S_.hooks['.count'] = lambda t, env: S_.ev(t[1], env)
    S_.hooks['.load'] = lambda t, env: S_.ev(t[1], env)
    S_.hooks['.store'] = lambda t, env: 0
    S_.fallback = mini.inliner(fx, S_)
    pn_ = ft['params'][0]['name']
    ieee_bad, ieee_n, ieee_err = None, 0, None
    starts = [7500000000 + 1702 * k_ for k_ in range(0, 1500)] + [10 ** 12 + 7 + 977 * k_ for k_ in range(200)] + [4999 * 10 ** 9 + 13 * k_ for k_ in range(200)]
    for t0 in starts:
        # ... and heartbeats stamped BEFORE the last data stamp (a timer that sampled its clock just before the data callback ran; the interleaving is free): not "more than 0.5 s after"
        for el, want_ in ((499999999, False), (500000000, False), (500000001, True)) + (((-1, False), (-2000000, False), (-3000000000, False)) if t0 in starts[:3] else ()):
            env_ = {pn_: t0 + el, 'this.lastDuration_': t0, 'this.hasData_': True, 'this.rate_': 1.0}
            try:
                got_ = S_.call(ft['body'], env_)
            except mini.Unsupported as e_:
                ieee_err = str(e_)
                break
            ieee_n += 1
            if bool(got_) != want_ and ieee_bad is None:
                ieee_bad = (t0, el, bool(got_))
        if ieee_err:
            break
    if ieee_err:
        if not other:
            R.undecided('M3', 'RateMonitoring::timeout:ieee', 'timeout() is not steppable in IEEE arithmetic: %s' % ieee_err)
    elif ieee_bad and ieee_bad[1] < 0:
        R.violated('M3', 'RateMonitoring::timeout:earlier-heartbeat', 'stepping timeout(): with the last stamp at %d ns a heartbeat stamped %d ns BEFORE it (the interleaving of heartbeats and data is free: a timer that '
                   'sampled its clock just before the data callback ran) reports a timeout and zeroes the rate - the check-up turns STALE while data are flowing.  Such a heartbeat is not "more than 0.5 s after the last '
                   'stamp", it must change nothing; the elapsed time is held in an unsigned quantity, where a negative difference is a huge positive one' % (ieee_bad[0], -ieee_bad[1]), fx.rel(ft['loc']), 'E-STEP')
    elif ieee_bad:
        R.violated('M3', 'RateMonitoring::timeout:rounded-elapsed', 'stepping timeout() in IEEE double arithmetic: with the last stamp at %d ns a heartbeat exactly %d ns later %s a timeout (the statement: more than 0.5 s, '
                   'and earlier heartbeats change nothing).  The elapsed time is not the conversion of the exact integer difference of the two stamps: converting each absolute stamp to seconds first and subtracting '
                   'loses the nanosecond to cancellation, so a heartbeat AT 0.5 s spuriously zeroes the rate and turns the check-up STALE' % (ieee_bad[0], ieee_bad[1], 'reports' if ieee_bad[2] else 'does not report'),
                   fx.rel(ft['loc']), 'E-STEP')
    else:
        R.holds('M3', 'RateMonitoring::timeout:ieee', '%d evaluations at 0.5 s -1 ns / +0 / +1 ns for absolute times up to 5000 s agree with the exact predicate' % ieee_n, fx.rel(ft['loc']), 'E-STEP')
    # the state the predicate calls "has data" must be established by EVERY path of update(): a stamp has been seen from the first one on
    fu_ = fx.one(NS + 'RateMonitoring::update') if 'NS' in globals() else None
    if fu_ is None:
        fu_ = next((f_ for f_ in fx.functions.values() if f_['q'].endswith('RateMonitoring::update')), None)
    if fu_ is not None and any(s.name == 'this.hasData_' for s in state_syms):
        try:
            for st_ in sym.Reader(fx).run(fu_):
                hv = st_.fields.get(fld('hasData_'))
                desc = ' && '.join(('' if c[2] else '!') + '(' + c[0] + ')' for c in st_.cond)
                already = any(isinstance(c[1], sp.Basic) and any(y_.name == 'this.hasData_' for y_ in c[1].free_symbols) and c[2] and
                              (isinstance(c[1], sp.And) or c[1].is_Symbol or isinstance(c[1], (sp.Ne, sp.Eq))) for c in st_.cond)
                if (hv is None or (isinstance(hv, sp.Symbol) and hv.name == 'this.hasData_')) and already:
                    continue            # the path is only taken when hasData_ already holds
                if hv is None or (isinstance(hv, sp.Symbol) and hv.name == 'this.hasData_'):
                    R.violated('M3', 'RateMonitoring::update:has-data', 'on the path [%s] update() does not set hasData_, which the timeout predicate requires: a heartbeat more than 0.5 s after a stamp seen on this '
                               'path is not reported as a timeout (no STALE report), although a data stamp has been seen' % desc, fx.rel(fu_['loc']), 'E-STATE')
                    break
                if hv not in (1, sp.true, sp.Integer(1)):
                    R.undecided('M3', 'RateMonitoring::update:has-data', 'hasData_ becomes %s on the path [%s]' % (hv, desc))
                    break
            else:
                R.holds('M3', 'RateMonitoring::update:has-data', 'every path of update() sets hasData_', fx.rel(fu_['loc']), 'E-STATE')
        except sym.Unsupported as u:
            R.undecided('M3', 'RateMonitoring::update:has-data', str(u))
    nodata = [evaluate(x, False, r_) for x in WITNESS_NS for r_ in RATES]
    if any(v is None for v in nodata):
        R.undecided('M3', 'RateMonitoring::timeout:no-data', 'predicate not evaluable before the first stamp')
    else:
        R.check(all(v is False for v in nodata), 'M3', 'RateMonitoring::timeout:no-data', 'before any data stamp the predicate evaluates to %s on the witnesses' % nodata,
                'never a timeout before the first stamp', fx.rel(ft['loc']), 'E-ORD')
    if cst is not None:
        hd = cst.fields.get(fld('hasData_'))
        pq = cst.fields.get(fld('periods_'))
        ok = (hd == 0) or (hd is None and any(s.name == 'size(this.periods_)' for s in state_syms))
        R.check(bool(ok), 'M3', 'RateMonitoring:constructed-no-data', 'the constructed state already counts as `has data` (%s)' % hd, 'constructed state has no data', fx.rel(ft['loc']), 'E-STATE')
    r1 = tp.fields.get(fld('rate_'))
    R.check(r1 == 0, 'M3', 'RateMonitoring::timeout:true-path', 'timeout path stores rate %s' % r1, 'rate <- 0 on timeout', fx.rel(ft['loc']), 'E-STATE')
    # EVERY heartbeat more than 0.5 s after the last stamp reports a timeout, the second one of a silence too: the state the timeout path leaves must still satisfy what the predicate reads
    hd_after = tp.fields.get(fld('hasData_'))
    if any(s.name == 'this.hasData_' for s in state_syms):
        touched_hd = hd_after is not None and not (isinstance(hd_after, sp.Symbol) and hd_after.name == 'this.hasData_')
        if touched_hd and hd_after in (0, sp.false, sp.Integer(0)):
            R.violated('M3', 'RateMonitoring::timeout:second-heartbeat', 'the timeout path clears hasData_, which the timeout predicate itself requires: after one reported timeout every later heartbeat of the same silence '
                       '(no data stamp in between) is answered "no timeout" - the check-up\'s heartbeat callback then returns true (alive) while its report still says STALE; the statement has every heartbeat more '
                       'than 0.5 s after the last stamp report a timeout', fx.rel(ft['loc']), 'E-STATE')
        elif touched_hd and hd_after not in (1, sp.true, sp.Integer(1)):
            R.undecided('M3', 'RateMonitoring::timeout:second-heartbeat', 'the timeout path stores %s into hasData_' % hd_after)
        else:
            R.holds('M3', 'RateMonitoring::timeout:second-heartbeat', 'the timeout path leaves the state the predicate reads (hasData_, last stamp) as it was: a second late heartbeat times out again', fx.rel(ft['loc']), 'E-STATE')
    last_after = tp.fields.get(fld('lastDuration_', 'value_'))
    if last_after is not None and not (isinstance(last_after, sp.Symbol) and last_after.name == 'this.lastDuration_.value_'):
        R.violated('M3', 'RateMonitoring::timeout:moves-last-stamp', 'the timeout path rewrites the last data stamp (%s): the next heartbeat measures its 0.5 s from the heartbeat, not from the last DATA stamp, so a silence '
                   'polled every 0.4 s times out once and never again' % str(last_after)[:80], fx.rel(ft['loc']), 'E-STATE')
    changed = [p for p, v in fp.fields.items() if not (isinstance(v, sp.Symbol) and v.name == '.'.join(p))]
    R.check(not changed, 'M3', 'RateMonitoring::timeout:false-path', 'an in-time heartbeat changes %s' % ['.'.join(p) for p in changed], 'in-time heartbeat changes nothing', fx.rel(ft['loc']), 'E-STATE')


def check_wiring(fx, R):
    classes = sorted(q for q in fx.records if q.startswith('romea::core::CheckupRate<'))
    if len(classes) < 2:
        R.undecided('M4', 'CheckupRate', 'fewer than two CheckupRate instantiations: %s' % classes)
    for cq in classes:
        cname = short_fn(cq)
        fe, fh, fg = fx.one(cq + '::evaluate'), fx.one(cq + '::heartBeatCallback'), fx.one(cq + '::getReport')
        ctor = [f for f in fx.functions.values() if f.get('ctor') and f.get('cls') == cq and len(f['params']) == 3]
        if None in (fe, fh, fg) or len(ctor) != 1:
            R.undecided('M4', cname, 'anchor vanished (evaluate/heartBeatCallback/getReport/constructor)')
            continue
        R.used(fe, fh, fg, ctor[0])
        pe = sym.Reader(fx, call_hook=hook).run(fe)
        ok, why = True, ''
        for st in pe:
            val = st.fields.get(('this', 'checkup_') + VALUE[1:])
            newrate = st.fields.get(('this', 'rateMonitoring_', 'rate_'), sp.Symbol('this.rateMonitoring_.rate_', real=True))
            stored = st.fields.get(('this', 'checkup_') + STATUS[1:])
            if val is None:
                # the path does not write the info entry at all (a value cache in front of the formatting): whether skipping is coherent is rule M5's business
                if ok is True:
                    ok, why = None, 'a path of evaluate() leaves the info entry unwritten (a cache of the printed value: judged by M5)'
            elif not (isinstance(val, sp.Basic) and val.func == sp.Function('toStringInfoValue') and sp.simplify(val.args[0] - newrate) == 0):
                ok, why = False, 'the value handed to the check-up is %s, not the rate just returned by update() (%s)' % (val, newrate)
            elif st.ret != stored:
                ok, why = False, 'evaluate returns %s but the report stores %s' % (st.ret, stored)
            elif not any(isinstance(c[1], sp.Basic) and any(s.name == 'size(this.rateMonitoring_.periods_)' for s in c[1].free_symbols) for c in st.cond):
                ok, why = None, 'a path of evaluate() does not show the window test of RateMonitoring::update (update() has a path that returns before it: judged by M2)'
        if ok is None:
            R.undecided('M4', cname + '::evaluate', why)
        else:
            R.check(ok, 'M4', cname + '::evaluate', why, 'check-up evaluates the rate returned by update(stamp)', fx.rel(fe['loc']), 'E-STATE')
        ph = sym.Reader(fx, call_hook=hook).run(fh)
        okh, whyh = len(ph) == 2, 'heartBeatCallback has %d paths' % len(ph)
        for st in ph:
            stale = st.fields.get(('this', 'checkup_') + STATUS[1:])
            val = st.fields.get(('this', 'checkup_') + VALUE[1:])
            r0 = st.fields.get(('this', 'rateMonitoring_', 'rate_'))
            timed_out = (r0 == 0)
            if timed_out:
                if not (isinstance(stale, sp.Symbol) and stale.name == 'STALE' and isinstance(val, sp.Symbol) and val.name == '""' and st.ret == 0):
                    okh, whyh = False, 'on the timeout path the report gets status %s, value %s and the callback returns %s (expected STALE, empty, false)' % (stale, val, st.ret)
            else:
                if stale is not None and not (isinstance(stale, sp.Symbol) and stale.name.startswith('this.')) or st.ret != 1:
                    okh, whyh = False, 'on the in-time path the report is modified (%s) or the callback returns %s' % (stale, st.ret)
        R.check(okh, 'M4', cname + '::heartBeatCallback', whyh, 'timeout <=> STALE + empty value + returns false', fx.rel(fh['loc']), 'E-STATE')
        pg = sym.Reader(fx, call_hook=hook).run(fg)
        okg = len(pg) == 1 and isinstance(pg[0].ret, sp.Symbol) and pg[0].ret.name == 'this.checkup_.report_'
        R.form(okg, 'M4', cname + '::getReport', 'getReport returns %s, not the wrapped check-up\'s report' % [s.ret for s in pg], 'returns the check-up report', fx.rel(fg['loc']), 'E-STATE')
        inits = {i.get('field'): deep_unwrap(sx(i['e'])) for i in ctor[0]['inits'] if i.get('field')}
        rm, ck = inits.get('rateMonitoring_'), inits.get('checkup_')
        okc = rm == ('new:RateMonitoring', 'rate') and isinstance(ck, tuple) and len(ck) == 5 and ck[1] == ('+', 'name', '_rate') and ck[2] == 'rate' and ck[3] == 'espilon' \
            and ck[4] == ('new:Diagnostic', 'romea::core::DiagnosticStatus::ERROR', ('+', 'no data received from ', 'name'))
        # value rule for the two numeric arguments of the wrapped check-up: for witness (rate, tolerance) pairs of the quantifier (every tolerance, also above the rate) they are the configured rate and tolerance
        wiring_fact = (False, '')
        if not okc and isinstance(ck, tuple) and len(ck) == 5:
            from .. import mini
            pnames = [p_['name'] for p_ in ctor[0]['params']]
            tol_name = next((n_ for n_ in pnames if n_.lower().startswith(('espilon', 'epsilon', 'tol'))), None)
            if 'rate' in pnames and tol_name:
                for (rate_, tol_) in ((10.0, 0.1), (10.0, 15.0), (0.5, 2.0), (200.0, 1.0), (1.0, 1.0)):
                    try:
                        env_ = {'rate': rate_, tol_name: tol_}
                        got_ = (mini.Step(deep_unwrap).ev(ck[2], dict(env_)), mini.Step(deep_unwrap).ev(ck[3], dict(env_)))
                    except mini.Unsupported:
                        break
                    if got_ != (rate_, tol_):
                        wiring_fact = (True, 'built with expected rate %g Hz and tolerance %g Hz the wrapped check-up is given (target %g, tolerance %g): OK / too low / too high are then not decided by the configured '
                                       'threshold (every tolerance is inside the quantifier; check-up arguments: %s, %s)' % (rate_, tol_, got_[0], got_[1], ck[2], ck[3]))
                        break
        R.form(okc, 'M4', cname + ':constructor', 'constructor wiring differs: monitor %s, check-up %s' % (rm, ck),
                'monitor(rate); check-up(name_rate, rate, epsilon, ERROR "no data received from <name>")', fx.rel(ctor[0]['loc']), 'E-STATE', facts=[wiring_fact])


class _Remap:
    """Forwards C18's verdicts under C17's rule name."""

    def __init__(self, R):
        self.R = R

    def holds(self, rule, inst, *a, **k):
        self.R.holds('M5', inst, *a, **k)

    def violated(self, rule, inst, *a, **k):
        self.R.violated('M5', inst, *a, **k)

    def undecided(self, rule, inst, *a, **k):
        self.R.undecided('M5', inst, *a, **k)

    def check(self, cond, rule, inst, *a, **k):
        return self.R.check(cond, 'M5', inst, *a, **k)

    def form(self, cond, rule, inst, *a, **k):
        return self.R.form(cond, 'M5', inst, *a, **k)

    def used(self, *f):
        self.R.used(*f)


def check_classification(fx, R):
    from . import C18
    RR = _Remap(R)
    for cq, kind in (('romea::core::CheckupEqualTo<double>', 'equal'), ('romea::core::CheckupGreaterThan<double>', 'greater')):
        if fx.one(cq + '::evaluate') is None:
            R.undecided('M5', short_fn(cq), 'evaluate() of the wrapped check-up has no body in the parsed units')
            continue
        C18.check_checkup(fx, RR, cq, kind)
