"""C10 rules R1..R6 (exact algebra / structure / range typing) on the extracted formulas.

  R1  SmartRotation3D::R() = Rz(z) Ry(y) Rx(x) (textbook elementary rotations) on every path of init(), from a fresh object AND
      from an arbitrary earlier state: every table entry init() may write is written on every path (no stale rotation survives)
  R2  builders agree: eulerAnglesToQuaternion multiplies AngleAxis(angles(2),Z) * AngleAxis(angles(1),Y) * AngleAxis(angles(0),X);
      eulerAnglesToRotation3D is that quaternion's matrix; the SmartRotation3D constructors / init(Vector) pass (a[0],a[1],a[2]) as (x,y,z)
  R3  rotation3DToEulerAngles inverts the builder for |pitch| < pi/2: on R = Rz Ry Rx it reads atan2(R21,R22), -asin(R20), atan2(R10,R00),
      whose arguments are (cos p sin r, cos p cos r), -sin p, (cos p sin y, cos p cos y)
  R4  produced matrices are proper rotations (R^T R = I, det = 1), also the planar pair angle <-> 2x2 rotation
  R5  normalisers: result congruent to the input modulo 2 pi and inside the advertised interval on every path, for inputs in (-4 pi, 4 pi)
  R6  polar / spherical <-> Cartesian are mutual inverses (range, azimuth, elevation recovered from r(cos a sin e, sin a sin e, cos e))"""
import sympy as sp
from .. import alg
from .. import sym, mat, vec
from ..tree import sx, walk, pp, strip_casts
from .C20 import deep_unwrap
from .C14 import stmts_sx
from . import rot

NS = 'romea::core::'


def run(fx, R, tier):
    R.floor('R1', 2)
    R.floor('R5', 4)      # two normalisers x two scalar types, at least one path each (a branch-free formulation has one)
    check_smart_rotation(fx, R)
    for S in ('double', 'float'):
        check_builders(fx, R, S)
        check_extraction(fx, R, S)
        check_planar(fx, R, S)
        check_normalisers(fx, R, S)
        check_polar(fx, R, S)
        check_spherical(fx, R, S)


def _c10_domain(s_):
    """witness ranges (hundredths of a radian) of this property's quantifier: |pitch| <= pi/2 - 1e-3, roll and yaw in (-2 pi, 2 pi)"""
    n = s_.name.lower()
    if 'yaxis' in n or 'pitch' in n:
        return (-156, 156)
    if 'axis' in n or n in ('roll', 'yaw'):
        return (-620, 620)
    return None


ANGLE_DOMAIN = [_c10_domain]


def check_smart_rotation(fx, R):
    md = rot.model(fx)
    if md is None:
        R.undecided('R1', 'SmartRotation3D', 'constructor/init tables not readable as matrices')
        return
    R.used(md['ctor'], md['init'])
    rot.check_forwarding(fx, R, 'R1')
    x, y, z = md['angles']
    Rx, Ry, Rz = rot.canon(x, y, z)
    want = Rz * Ry * Rx
    loc = fx.rel(md['init']['loc'])
    # What a caller sees is decided: R() and operator*(T) are RUN on the state each path of init() leaves (first access after init), so a rotation
    # composed on demand is judged by what it hands out, and an accessor that bypasses the on-demand step is caught.
    T = mat.fresh('T', 3, 1)
    observed = {}
    for tag, paths in (('fresh', md['fresh']), ('re-init', md['again'])):
        for n, st in enumerate(paths):
            desc = ' && '.join(('' if c[2] else '!') + '(' + c[0] + ')' for c in st.cond)
            sub = rot.cond_subs(st)
            for acc, args, wanted, what in (('R', None, want, 'R()'), ('operator*', [T], want * T, 'operator*(T)')):
                inst = 'SmartRotation3D::init:%s%s%s' % (tag, '' if len(paths) == 1 else '[%s]' % desc, '' if acc == 'R' else ':operator*')
                try:
                    ob = rot.observe(fx, st, acc, args=args, nparams=0 if acc == 'R' else 1)
                except sym.Unsupported as u:
                    R.undecided('R1', inst, '%s is not readable on the state init() leaves: %s' % (what, u))
                    continue
                if ob is None:
                    R.undecided('R1', inst, '%s vanished' % what)
                    continue
                R.used(ob[1])
                for (M, s2) in ob[0]:
                    if not isinstance(M, sp.MatrixBase) or sp.Matrix(M).shape != sp.Matrix(wanted).shape:
                        R.undecided('R1', inst, '%s does not return a readable matrix (%s)' % (what, type(M).__name__))
                        continue
                    if tag == 'fresh' and acc == 'R':
                        observed.setdefault('R', M)
                    res = sp.simplify((sp.Matrix(M) - wanted).subs(sub))
                    stale = sorted({s.name for s in res.free_symbols if s.name.startswith('old:')})
                    if res == sp.zeros(*res.shape):
                        R.holds('R1', inst, '%s = Rz(z) Ry(y) Rx(x)%s on the state init() leaves' % (what, '' if acc == 'R' else ' T'), loc, 'E-ALG')
                    elif not stale:
                        # a residual that does not reduce is confirmed on witness angles of the QUANTIFIER before it is called a violation
                        alg.check_zero(R, res, 'R1', 'SmartRotation3D::init:formula' + ('' if acc == 'R' else ':operator*'),
                                       '%s - Rz Ry Rx%s = %s (should vanish)%s, first access after %s' % (what, '' if acc == 'R' else ' T', res.tolist(), (' on path [%s]' % desc) if desc else '',
                                                                                                       'init() on a new object' if tag == 'fresh' else 'a re-initialisation'),
                                       '%s = Rz(z) Ry(y) Rx(x)' % what, fx.rel(ob[1]['loc']) if acc != 'R' else loc, domain=ANGLE_DOMAIN[0])
                    else:
                        R.violated('R1', 'SmartRotation3D::init:stale-table' + ('' if acc == 'R' else ':operator*'), 'on the path [%s] %s after a re-initialisation still contains %s: entries an EARLIER init() wrote '
                                   '(a table init() does not rewrite on this path, or a composed matrix that this accessor reads without the refresh the other accessors perform), so it is not the rotation of the new '
                                   'angles' % (desc, what, stale[:4]), loc, 'E-STATE')
    # R4 on what R() hands out for a new object
    if isinstance(observed.get('R'), sp.MatrixBase):
        M = sp.Matrix(observed['R'])
        ortho = sp.simplify(M.T * M - sp.eye(3))
        det = sp.simplify(M.det())
        alg.check_zero(R, sp.Matrix(list(ortho) + [det - 1]), 'R4', 'SmartRotation3D::R:proper', 'R^T R - I = %s, det = %s' % (ortho.tolist(), det), 'R^T R = I, det = 1', loc, domain=ANGLE_DOMAIN[0])
    else:
        R.undecided('R4', 'SmartRotation3D::R:proper', 'R() not readable')
    # constructor / init(Vector) argument routing
    c3 = [f for f in fx.functions.values() if f.get('ctor') and f.get('cls') == NS + 'SmartRotation3D' and len(f['params']) == 3]
    cv = [f for f in fx.functions.values() if f.get('ctor') and f.get('cls') == NS + 'SmartRotation3D' and len(f['params']) == 1 and not f.get('copyctor')]
    iv = [f for f in fx.fn(rot.Q + 'init') if len(f['params']) == 1]
    ok = len(c3) == 1 and stmts_sx(c3[0]) == [('expr', ('.init', 'this', 'angleAroundXAxis', 'angleAroundYAxis', 'angleAroundZAxis'))] and any(i.get('delegating') for i in c3[0]['inits'])
    if ok:
        R.holds('R2', 'SmartRotation3D(x,y,z)', 'delegates + init(x,y,z)', fx.rel(c3[0]['loc']) if c3 else None, 'E-SIB')
    if len(cv) == 1:
        dl = [deep_unwrap(sx(i['e'])) for i in cv[0]['inits'] if i.get('delegating')]
        okv = len(dl) == 1 and dl[0][1:] == (('[]', 'angles', 0), ('[]', 'angles', 1), ('[]', 'angles', 2))
        if okv:
            R.holds('R2', 'SmartRotation3D(angles)', '(angles[0], angles[1], angles[2]) = (x, y, z)', fx.rel(cv[0]['loc']), 'E-SIB')
    # value-based: every constructor that takes angles leaves R_ = Rz Ry Rx of ITS arguments, with no entry taken from uninitialised storage
    for cf in c3 + cv:
        try:
            cst = rot.reader(fx).run(cf)
        except sym.Unsupported as u:
            R.undecided('R2', 'SmartRotation3D(%d args):value' % len(cf['params']), str(u))
            continue
        seen_ = []
        for st_ in cst:
            try:
                ob_ = rot.observe(fx, st_, 'R', nparams=0)
            except sym.Unsupported as u:
                ob_ = None
            seen_ += [m_ for (m_, _s) in (ob_[0] if ob_ else [(None, None)])]
        for Mx in seen_:
            if not isinstance(Mx, sp.MatrixBase):
                R.undecided('R2', 'SmartRotation3D(%d args):value' % len(cf['params']), 'R() not readable on the constructed object')
                continue
            if len(cf['params']) == 3:
                a_ = [sp.Symbol('arg:' + p['name'], real=True) for p in cf['params']]
            else:
                a_ = [sp.Symbol('%s[%d]' % (cf['params'][0]['name'], k_), real=True) for k_ in range(3)]
            ax, ay, az = rot.canon(*a_)
            res_ = sp.simplify(sp.Matrix(Mx) - az * ay * ax)
            garbage = sorted({s_.name for s_ in sp.Matrix(Mx).free_symbols if s_ not in a_})
            inst_ = 'SmartRotation3D(%s):value' % ('x,y,z' if len(cf['params']) == 3 else 'angles')
            if garbage:
                R.violated('R2', inst_, 'after this constructor R() depends on %s: entries of the elementary tables that no constructor on this path initialises (fixed-size Eigen matrices are not '
                           'zero-initialised, init() writes only the angle-dependent entries), so the matrix is not the rotation of the angles, nor a rotation at all' % garbage[:6], fx.rel(cf['loc']), 'E-STATE')
            else:
                alg.check_zero(R, res_, 'R2', inst_, 'R() - Rz Ry Rx = %s for the constructor arguments' % (res_.tolist(),), 'R() = Rz Ry Rx of the constructor arguments', fx.rel(cf['loc']), domain=ANGLE_DOMAIN[0])
    if len(iv) == 1:
        okv = stmts_sx(iv[0]) == [('expr', ('.init', 'this', ('[]', 'angles', 0), ('[]', 'angles', 1), ('[]', 'angles', 2)))]
        R.form(okv, 'R2', 'SmartRotation3D::init(angles)', 'init(Vector) is %s' % (stmts_sx(iv[0]),), 'init(angles[0], angles[1], angles[2])', fx.rel(iv[0]['loc']), 'E-SIB')


def fn1(fx, name, S, sig_part=None):
    l = fx.fn(NS + '%s<%s>' % (name, S))
    if sig_part:
        l = [f for f in l if sig_part in f['sig']]
    return l[0] if len(l) == 1 else None


def check_builders(fx, R, S):
    fq, fr = fn1(fx, 'eulerAnglesToQuaternion', S), fn1(fx, 'eulerAnglesToRotation3D', S)
    fqe = fn1(fx, 'quaternionToEulerAngles', S)
    if None in (fq, fr, fqe):
        R.undecided('R2', 'eulerAnglesToQuaternion<%s>' % S, 'instantiation missing')
        return
    R.used(fq, fr, fqe)
    st = stmts_sx(fq)
    def aa(k, ax):
        return ('new:Eigen::AngleAxis<%s>' % S, ('()', 'eulerAngles', k), ('Eigen::MatrixBase<Eigen::Matrix<%s, 3, 1, 0>>::Unit%s' % (S, ax),))
    want = [('return', ('*', ('*', aa(2, 'Z'), aa(1, 'Y')), aa(0, 'X')))]
    if st == want:
        R.holds('R2', 'eulerAnglesToQuaternion<%s>' % S, 'q = Rz(a2) Ry(a1) Rx(a0)', fx.rel(fq['loc']), 'E-SIB')
    else:
        fac = factors(st[0][1]) if len(st) == 1 and st[0][0] == 'return' else None
        if fac is not None and sorted(fac) == sorted([(2, 'Z'), (1, 'Y'), (0, 'X')]) and fac != [(2, 'Z'), (1, 'Y'), (0, 'X')]:
            R.violated('R2', 'eulerAnglesToQuaternion<%s>' % S, 'quaternion factors are %s; the Z-Y-X convention shared with SmartRotation3D and the Euler extraction needs [(2,Z),(1,Y),(0,X)]' % fac,
                       fx.rel(fq['loc']), 'E-SIB')
        elif fac is not None:
            R.violated('R2', 'eulerAnglesToQuaternion<%s>' % S, 'quaternion factors pair angles and axes as %s, expected angles(2)<->Z, angles(1)<->Y, angles(0)<->X' % fac, fx.rel(fq['loc']), 'E-SIB')
        else:
            verdict = builder_witnesses(fx, fq)
            if verdict[0] == 'violated':
                R.violated('R2', 'eulerAnglesToQuaternion:value', verdict[1] + ' [%s]' % S, fx.rel(fq['loc']), 'E-ORD')
            elif verdict[0] == 'proved':
                R.holds('R2', 'eulerAnglesToQuaternion<%s>' % S, verdict[1], fx.rel(fq['loc']), 'E-ALG')
            else:
                R.undecided('R2', 'eulerAnglesToQuaternion<%s>' % S, 'not the enumerated product of three AngleAxis factors; %s' % verdict[1])
    okr = stmts_sx(fr) in ([('return', ('eulerAnglesToQuaternion', 'eulerAngles'))], [('return', ('new:Eigen::Matrix<%s, 3, 3, 0>' % S, ('eulerAnglesToQuaternion', 'eulerAngles')))])
    if okr:
        R.holds('R2', 'eulerAnglesToRotation3D<%s>' % S, 'matrix of the quaternion', fx.rel(fr['loc']), 'E-SIB')
    else:
        verdict = builder_witnesses(fx, fr, matrix_result=True)
        if verdict[0] == 'violated':
            R.violated('R2', 'eulerAnglesToRotation3D:value', verdict[1] + ' [%s]' % S, fx.rel(fr['loc']), 'E-ORD')
        elif verdict[0] == 'proved':
            R.holds('R2', 'eulerAnglesToRotation3D<%s>' % S, verdict[1].replace('returned quaternion', 'returned matrix'), fx.rel(fr['loc']), 'E-ALG')
        else:
            R.undecided('R2', 'eulerAnglesToRotation3D<%s>' % S, 'is %s, not the enumerated matrix of eulerAnglesToQuaternion(angles); %s' % (str(stmts_sx(fr))[:300], verdict[1]))
    okq = stmts_sx(fqe) == [('return', ('rotation3DToEulerAngles', ('.toRotationMatrix', ('.normalized', 'quaternion'))))]
    if okq:
        R.holds('R2', 'quaternionToEulerAngles<%s>' % S, 'extraction of the normalised quaternion\'s matrix', fx.rel(fqe['loc']), 'E-SIB')
    else:
        verdict = quaternion_witnesses(fx, fqe)
        if verdict[0] == 'violated':
            R.violated('R2', 'quaternionToEulerAngles:closed-form', verdict[1] + ' [%s]' % S, fx.rel(fqe['loc']), 'E-ORD')
        else:
            R.undecided('R2', 'quaternionToEulerAngles<%s>' % S, 'not the enumerated form (extraction of the normalised quaternion\'s matrix); %s' % verdict[1])


def _qmul(a, b):
    (_, w1, x1, y1, z1), (_, w2, x2, y2, z2) = a, b
    return ('quat', w1 * w2 - x1 * x2 - y1 * y2 - z1 * z2, w1 * x2 + x1 * w2 + y1 * z2 - z1 * y2, w1 * y2 - x1 * z2 + y1 * w2 + z1 * x2, w1 * z2 + x1 * y2 - y1 * x2 + z1 * w2)


def _qmat(q):
    _, w, x, y, z = q
    n = w * w + x * x + y * y + z * z
    return sp.Matrix([[1 - 2 * (y * y + z * z) / n, 2 * (x * y - z * w) / n, 2 * (x * z + y * w) / n],
                      [2 * (x * y + z * w) / n, 1 - 2 * (x * x + z * z) / n, 2 * (y * z - x * w) / n],
                      [2 * (x * z - y * w) / n, 2 * (y * z + x * w) / n, 1 - 2 * (x * x + y * y) / n]])


def _is_quat(v):
    return isinstance(v, tuple) and len(v) == 5 and v[0] == 'quat'


def quat_hook(rd, e, st, ctx):
    """Eigen::AngleAxis / Eigen::Quaternion values as ('quat', w, x, y, z): construction from (angle, unit axis), Hamilton product,
    component reads and component stores on a local, conjugate / inverse / normalized."""
    k = e.get('k')
    COMP = {'w': 1, 'x': 2, 'y': 3, 'z': 4}
    if k == 'Construct' and 'Eigen::AngleAxis<' in e['t']['s'] and len(e.get('args', [])) == 2:
        ax = strip_casts(e['args'][1])
        tail = (ax.get('fn') or '').split('::')[-1] if ax.get('k') == 'Call' else ''
        if tail in ('UnitX', 'UnitY', 'UnitZ'):
            out = []
            for (v, s2) in rd.ev(e['args'][0], st, ctx):
                h = v / 2
                c_, s_ = sp.cos(h), sp.sin(h)
                out.append((('quat', c_, s_ if tail == 'UnitX' else 0, s_ if tail == 'UnitY' else 0, s_ if tail == 'UnitZ' else 0), s2))
            return out
        raise sym.Unsupported('AngleAxis about a non-unit-axis expression at %s' % e.get('loc'))
    if k == 'Construct' and mat.dims_of(e['t']['s']) == (3, 3) and len(e.get('args', [])) == 1 and 'Quaternion' in strip_casts(e['args'][0])['t']['s']:
        out = []
        for (v, s2) in rd.ev(e['args'][0], st, ctx):
            if not _is_quat(v):
                return ext_hook(rd, e, st, ctx)
            out.append((sp.ImmutableMatrix(_qmat(v)), s2))       # Matrix3(q): the rotation matrix of the quaternion
        return out
    if k == 'Construct' and 'Eigen::Quaternion<' in e['t']['s']:
        args = e.get('args', [])
        if len(args) == 1:
            out = []
            for (v, s2) in rd.ev(args[0], st, ctx):
                if not _is_quat(v):
                    raise sym.Unsupported('quaternion built from a non-quaternion value at %s' % e.get('loc'))
                out.append((v, s2))
            return out
        if len(args) == 4:
            return [(('quat',) + tuple(vals), s2) for (vals, s2) in rd.evs(args, st, ctx)]
    if k == 'Op' and e.get('op') == '*' and not e.get('inrepo') and len(e.get('args', [])) == 2:
        out = []
        for (vals, s2) in rd.evs(e['args'], st, ctx):
            if _is_quat(vals[0]) and _is_quat(vals[1]):
                out.append((_qmul(vals[0], vals[1]), s2))
            else:
                return ext_hook(rd, e, st, ctx)
        return out
    if k == 'MCall' and not e.get('inrepo'):
        o_ = e['obj']
        m = e.get('m')
        if m in COMP or m in ('conjugate', 'inverse', 'normalized', 'toRotationMatrix', 'matrix'):
            out = []
            for (v, s2) in rd.ev(o_, st, ctx):
                if not _is_quat(v):
                    return ext_hook(rd, e, st, ctx)
                if m in COMP and not e.get('args'):
                    out.append((v[COMP[m]], s2))
                elif m == 'conjugate':
                    out.append((('quat', v[1], -v[2], -v[3], -v[4]), s2))
                elif m == 'inverse':
                    n = sum(c * c for c in v[1:])
                    out.append((('quat', v[1] / n, -v[2] / n, -v[3] / n, -v[4] / n), s2))
                elif m == 'normalized':
                    n = sp.sqrt(sum(c * c for c in v[1:]))
                    out.append((('quat',) + tuple(c / n for c in v[1:]), s2))
                else:
                    out.append((sp.ImmutableMatrix(_qmat(v)), s2))
            return out
    if k == 'Store':
        l = strip_casts(e['lhs'])
        if l.get('k') == 'MCall' and l.get('m') in COMP and not l.get('args'):
            o_ = strip_casts(l['obj'])
            if o_.get('k') == 'Ref' and o_.get('id') in st.locals and _is_quat(st.locals[o_['id']]) and isinstance(e['value'], sp.Basic):
                q = list(st.locals[o_['id']])
                old_ = q[COMP[l['m']]]
                val = e['value']
                if e['op'] != '=':
                    val = {'*=': old_ * val, '/=': old_ / val, '+=': old_ + val, '-=': old_ - val}[e['op']]
                q[COMP[l['m']]] = val
                st.locals[o_['id']] = tuple(q)
                return [(val, st)]
            raise sym.Unsupported('store into a quaternion component that is not a local at %s' % l.get('loc'))
    return ext_hook(rd, e, st, ctx)


def builder_witnesses(fx, f, matrix_result=False):
    """eulerAnglesToQuaternion read as a quaternion-valued function of symbolic (roll, pitch, yaw); every path is evaluated on the witness angle
    triples that satisfy its conditions and the rotation of the returned quaternion must be Rz(yaw) Ry(pitch) Rx(roll)."""
    import itertools
    r, p, y = sp.symbols('roll pitch yaw', real=True)
    try:
        sts = sym.Reader(fx, call_hook=quat_hook, member_hook=mat.member_hook).run(f, args=[sp.ImmutableMatrix([r, p, y])])
    except sym.Unsupported as u:
        return ('undecided', 'not interpretable as a quaternion-valued function: %s' % u)
    as_matrix = lambda v: _qmat(v) if _is_quat(v) else (sp.Matrix(v) if isinstance(v, sp.MatrixBase) and sp.Matrix(v).shape == (3, 3) else None)
    if not sts or not all((as_matrix(st_.ret) is not None) if matrix_result else _is_quat(st_.ret) for st_ in sts):
        return ('undecided', 'result not readable as a %s' % ('rotation matrix' if matrix_result else 'quaternion'))
    Rx, Ry, Rz = rot.canon(r, p, y)
    M = Rz * Ry * Rx
    rolls = (sp.Rational(3, 10), sp.Rational(5, 2), -sp.Integer(2))
    # a negative pitch comes back from the library's own extraction as its representative in [0, 2 pi): angles taken from a rotation are fed to the builders in that form ("modulo 2 pi")
    pitches = (sp.Rational(1, 2), -sp.Rational(6, 5), sp.Integer(0), 2 * sp.pi - sp.Rational(6, 5))
    yaws = (-sp.Rational(2, 5), sp.Rational(11, 10), sp.Rational(7, 2), -sp.Integer(3))
    # small rotations (increments) are inside the quantifier like any other angles
    small = [(sp.Rational(1, 500), -sp.Rational(1, 300), sp.Rational(1, 250)), (sp.Rational(1, 1000), sp.Integer(0), sp.Integer(0)), (sp.Integer(0), sp.Rational(-1, 2000), sp.Rational(1, 4000)),
             (sp.Rational(1, 10 ** 6), sp.Rational(1, 10 ** 6), -sp.Rational(1, 10 ** 6))]
    n_ok = 0
    for st_ in sts:
        desc = ' && '.join(('' if c[2] else '!') + '(' + c[0] + ')' for c in st_.cond)
        Q = as_matrix(st_.ret)
        for (rv, pv, yv) in list(itertools.product(rolls, pitches, yaws)) + small:
            env = {r: rv, p: pv, y: yv}
            ok = True
            for c in st_.cond:
                if c[0] in ('True', 'False') or not isinstance(c[1], sp.Basic):
                    continue
                v = c[1].subs(env)
                if v not in (sp.true, sp.false) and hasattr(v, 'lhs'):
                    v = v.func(sp.N(v.lhs, 40), sp.N(v.rhs, 40))
                if v not in (sp.true, sp.false):
                    return ('undecided', 'path condition [%s] not evaluable on the witness angles' % desc)
                if bool(v) != c[2]:
                    ok = False
                    break
            if not ok:
                continue
            try:
                err = max(abs(sp.N((Q[i, j] - M[i, j]).subs(env), 30)) for i in range(3) for j in range(3))
            except (TypeError, ValueError):
                return ('undecided', 'not evaluable on the witness angles')
            if not err.is_real or err > sp.Float('1e-9'):
                if not _is_quat(st_.ret):
                    return ('violated', 'for (roll %s, pitch %s, yaw %s)%s the returned matrix differs from Rz(yaw) Ry(pitch) Rx(roll) by %s in an entry (the shared convention is exact for every angle triple, '
                            'small ones included; the tolerance of the statement is 1e-9): it is not the rotation SmartRotation3D and the quaternion builder give for these angles, and extracting its Euler angles '
                            'does not return them' % (rv, pv, yv, ' on the path [%s]' % desc if desc else '', sp.N(err, 3)))
                q_ = [sp.N(c_.subs(env), 6) for c_ in st_.ret[1:]]
                return ('violated', 'for (roll %s, pitch %s, yaw %s)%s the returned quaternion (w, x, y, z) = %s rotates as a matrix that differs from Rz(yaw) Ry(pitch) Rx(roll) by %s: the quaternion and the '
                        'angles do not describe the same rotation, and quaternionToEulerAngles does not return these angles%s' % (
                            rv, pv, yv, ' on the path [%s]' % desc if desc else '', [str(c_) for c_ in q_], sp.N(err, 3),
                            ' (negating one coefficient of a quaternion changes the rotation; only negating all four keeps it)' if desc else ''))
            n_ok += 1
    if len(sts) <= 4 and all(alg.decide_zero(as_matrix(st_.ret)[i, j] - M[i, j], domain=_c10_domain)[0] == 'zero' for st_ in sts for i in range(3) for j in range(3)):
        return ('proved', 'the rotation of the returned quaternion is Rz(yaw) Ry(pitch) Rx(roll) identically on each of the %d path(s)' % len(sts))
    return ('agrees', 'its rotation equals Rz Ry Rx on %d witness angle triples (all paths), which is not a proof' % n_ok)


def quaternion_witnesses(fx, f):
    """The function is read with symbolic quaternion coefficients and evaluated on witness quaternions k * q(roll, pitch, yaw) (unit and
    non-unit, the quantifier has both); the angles must come back modulo 2 pi."""
    qs = {n: sp.Symbol('q' + n, real=True) for n in 'wxyz'}
    pname = f['params'][0]['name']

    def hook(rd, e, st, ctx):
        if e.get('k') == 'MCall' and not e.get('args'):
            o_ = strip_casts(e['obj'])
            if o_.get('k') == 'Ref' and o_.get('name') == pname:
                if e.get('m') in qs:
                    return [(qs[e['m']], st)]
                if e.get('m') == 'squaredNorm':
                    return [(sum(v * v for v in qs.values()), st)]
                if e.get('m') == 'norm':
                    return [(sp.sqrt(sum(v * v for v in qs.values())), st)]
        return ext_hook(rd, e, st, ctx)
    try:
        sts = sym.Reader(fx, call_hook=hook, member_hook=mat.member_hook).run(f)
    except sym.Unsupported as u:
        return ('undecided', 'not interpretable: %s' % u)
    if len(sts) != 1 or not isinstance(sts[0].ret, sp.MatrixBase):
        return ('undecided', 'result not readable as a vector on a single path')
    out = sts[0].ret
    two_pi = 2 * sp.pi
    unmod = lambda e_: e_.replace(lambda x: isinstance(x, sp.core.function.AppliedUndef) and len(x.args) == 1 and str(x.func) == 'mod2pi', lambda x: x.args[0] - two_pi * sp.floor(x.args[0] / two_pi))
    n_ok = 0
    for (rv, pv, yv) in ((sp.Rational(3, 10), sp.Rational(1, 2), -sp.Rational(2, 5)), (-sp.Rational(2, 5), -sp.Rational(6, 5), sp.Rational(11, 10)), (sp.Rational(5, 2), sp.Rational(1, 10), sp.Integer(3))):
        cr, sr, cp, sp_, cy, sy = sp.cos(rv / 2), sp.sin(rv / 2), sp.cos(pv / 2), sp.sin(pv / 2), sp.cos(yv / 2), sp.sin(yv / 2)
        unit = {'w': cr * cp * cy + sr * sp_ * sy, 'x': sr * cp * cy - cr * sp_ * sy, 'y': cr * sp_ * cy + sr * cp * sy, 'z': cr * cp * sy - sr * sp_ * cy}
        for k in (sp.Integer(1), sp.Rational(1, 2), sp.Integer(2), sp.Rational(999, 1000)):
            env = {qs[n]: k * unit[n] for n in qs}
            try:
                got = [sp.N(unmod(out[i, 0]).subs(env), 40) for i in range(3)]
            except (TypeError, ValueError):
                return ('undecided', 'not evaluable on the witness quaternions')
            want = [sp.N(a_ - two_pi * sp.floor(a_ / two_pi), 40) for a_ in (rv, pv, yv)]
            if any(not g_.is_real for g_ in got):
                return ('violated', 'for the quaternion of (roll %s, pitch %s, yaw %s) scaled to norm %s (non-unit quaternions are in the quantifier) the extracted angles are %s: not a real number' % (
                    rv, pv, yv, k, [str(sp.N(g_, 6)) for g_ in got]))
            err = max(min(abs(g_ - w_), abs(abs(g_ - w_) - sp.N(two_pi, 40))) for g_, w_ in zip(got, want))
            if err > sp.Float('1e-9'):
                return ('violated', 'for the quaternion of (roll %s, pitch %s, yaw %s) scaled to norm %s (non-unit quaternions are in the quantifier) the extracted angles are %s, off by %s rad: quaternion and '
                        'Euler angles do not describe the same rotation' % (rv, pv, yv, k, [str(sp.N(g_, 8)) for g_ in got], sp.N(err, 3)))
            n_ok += 1
    return ('agrees', 'it returns the angles of %d witness quaternions (unit and non-unit), which is not a proof' % n_ok)


def factors(e):
    out = []
    def go(x):
        if isinstance(x, tuple) and x[0] == '*' and len(x) == 3:
            return go(x[1]) and go(x[2])
        if isinstance(x, tuple) and str(x[0]).startswith('new:Eigen::AngleAxis<') and len(x) == 3:
            a, ax = x[1], x[2]
            if isinstance(a, tuple) and a[0] in ('()', '[]') and a[1] == 'eulerAngles' and isinstance(a[2], int) and isinstance(ax, tuple):
                out.append((a[2], str(ax[0])[-1]))
                return True
        return False
    return out if go(e) else None


def ext_hook(rd, e, st, ctx):
    if e.get('k') == 'Call' and 'between0And2Pi' in (e.get('fn') or ''):
        return [(sp.Function('mod2pi')(*vals), s2) for (vals, s2) in rd.evs(e['args'], st, ctx)]
    if e.get('k') == 'Call' and 'numeric_limits<' in (e.get('fn') or '') and (e.get('fn') or '').endswith('::epsilon') and not e.get('args'):
        return [(sp.Rational(1, 2 ** 23) if 'numeric_limits<float>' in e['fn'] else sp.Rational(1, 2 ** 52), st)]
    return mat.hook(rd, e, st, ctx)


def check_extraction(fx, R, S):
    f = fn1(fx, 'rotation3DToEulerAngles', S)
    if f is None:
        R.undecided('R3', 'rotation3DToEulerAngles<%s>' % S, 'instantiation missing')
        return
    R.used(f)
    r, p, y = sp.symbols('roll pitch yaw', real=True)
    Rx, Ry, Rz = rot.canon(r, p, y)
    M = sp.ImmutableMatrix(Rz * Ry * Rx)
    rd = sym.Reader(fx, call_hook=ext_hook, member_hook=mat.member_hook)
    try:
        sts = rd.run(f, args=[M])
    except sym.Unsupported as u:
        R.undecided('R3', 'rotation3DToEulerAngles<%s>' % S, str(u))
        return
    loc = fx.rel(f['loc'])
    if len(sts) > 1 and all(isinstance(st_.ret, sp.MatrixBase) for st_ in sts):
        # several paths: each path is tried on witness angles of the quantifier (|pitch| <= pi/2 - 1e-3, boundary included) that satisfy its
        # conditions; the extracted angles must be the witness angles modulo 2 pi.  The path taken by generic angles gets the symbolic rule.
        generic = None
        import itertools
        lim = sp.pi / 2 - sp.Rational(1, 1000)
        pitches = [sp.Integer(0), sp.Rational(1, 2), -sp.Rational(6, 5), lim, -lim, lim - sp.Rational(1, 5000), -(lim - sp.Rational(1, 5000))]
        two_pi = 2 * sp.pi
        unmod = lambda e_: e_.replace(lambda x: isinstance(x, sp.core.function.AppliedUndef) and len(x.args) == 1 and str(x.func) == 'mod2pi', lambda x: x.args[0] - two_pi * sp.floor(x.args[0] / two_pi))
        for st_ in sts:
            desc = ' && '.join(('' if c[2] else '!') + '(' + c[0] + ')' for c in st_.cond)
            reached, bad, unknown = 0, None, False
            for (rv, pv, yv) in itertools.product((sp.Rational(3, 10), -sp.Rational(2, 5)), pitches, (sp.Rational(-2, 5), sp.Rational(11, 10))):
                env = {r: rv, p: pv, y: yv}
                ok = True
                for c in st_.cond:
                    if c[0] in ('True', 'False') or not isinstance(c[1], sp.Basic):
                        continue
                    v = c[1].subs(env)
                    if v not in (sp.true, sp.false) and hasattr(v, 'lhs'):
                        v = v.func(sp.N(v.lhs, 40), sp.N(v.rhs, 40))
                    if v not in (sp.true, sp.false):
                        ok = None
                        break
                    if bool(v) != c[2]:
                        ok = False
                        break
                if ok is None:
                    unknown = True
                    continue
                if not ok:
                    continue
                reached += 1
                if pv == sp.Rational(1, 2):
                    generic = st_
                got = [sp.N(unmod(st_.ret[k, 0]).subs(env), 40) for k in range(3)]
                want = [sp.N(a_ - two_pi * sp.floor(a_ / two_pi), 40) for a_ in (rv, pv, yv)]
                err = max(min(abs(g_ - w_), abs(abs(g_ - w_) - sp.N(two_pi, 40))) for g_, w_ in zip(got, want))
                if err > sp.Float('1e-9') and bad is None:
                    bad = (rv, pv, yv, [sp.N(g_, 8) for g_ in got], sp.N(err, 3))
            inst = 'rotation3DToEulerAngles<%s>:path[%s]' % (S, desc)
            if bad:
                R.violated('R3', 'rotation3DToEulerAngles:special-path', 'on the path [%s] the angles (roll %s, pitch %s = pi/2 - %s, yaw %s) - inside the quantifier, |pitch| <= pi/2 - 1e-3 - come back as %s '
                           '(error %s rad modulo 2 pi): angles -> rotation -> angles is not the identity there [%s]' % (desc, bad[0], sp.N(bad[1], 8), sp.N(sp.pi / 2 - abs(bad[1]), 4), bad[2], bad[3], bad[4], S), loc, 'E-ORD')
            elif unknown:
                R.undecided('R3', inst, 'path condition not evaluable on the witness angles')
            elif reached == 0:
                R.holds('R3', inst, 'not taken by any witness of the quantifier (boundary pitches +-(pi/2 - 1e-3) included)', loc, 'E-ORD')
            elif st_ is not generic:
                R.undecided('R3', inst, 'special path reached inside the quantifier; agrees on %d witness angle triples (not a proof)' % reached)
        if generic is None:
            R.undecided('R3', 'rotation3DToEulerAngles<%s>' % S, 'no path is taken by generic angles')
            return
        sts = [generic]
    if len(sts) != 1 or not isinstance(sts[0].ret, sp.MatrixBase):
        R.undecided('R3', 'rotation3DToEulerAngles<%s>' % S, 'result not readable as a vector')
        return
    out = sts[0].ret
    eul = [x for x in walk(f['body']) if isinstance(x, dict) and x.get('k') == 'MCall' and x.get('m') == 'eulerAngles' and not x.get('inrepo')]
    if eul:
        from ..tree import const_value
        axes = [const_value(a_) for a_ in eul[0].get('args', [])]
        R.violated('R3', 'rotation3DToEulerAngles:eigen-euler-range', 'the angles are taken from Eigen\'s MatrixBase::eulerAngles(%s), whose documented result ranges are [0, pi] x [-pi, pi] x [-pi, pi]: its FIRST '
                   'angle (the yaw here) is never in (pi, 2 pi), so for a yaw congruent to a value in (-pi, 0) - inside the quantifier, yaw in (-2 pi, 2 pi) - it returns the other Z-Y-X solution '
                   '(roll + pi, pi - pitch, yaw + pi): the same rotation, not the same angles modulo 2 pi [%s]' % (', '.join(str(a_) for a_ in axes), S), fx.rel(eul[0].get('loc') or f['loc']), 'E-INT')
        return
    for k, (name, ang) in enumerate((('roll', r), ('pitch', p), ('yaw', y))):
        v = out[k, 0]
        inst = 'rotation3DToEulerAngles<%s>:%s' % (S, name)
        if not (isinstance(v, sp.Basic) and str(v.func) == 'mod2pi'):
            R.undecided('R3', inst, 'component is not normalised by between0And2Pi: %s' % v)
            continue
        a = v.args[0]
        if name == 'pitch':
            # expected  -asin(-sin p)
            if not (a.free_symbols <= {r, p, y}) or a.atoms(sp.core.function.AppliedUndef):
                R.undecided('R3', inst, 'pitch is read as %s, which is not a formula of the matrix entries this rule can evaluate' % str(a)[:120])
                continue
            ok = sp.simplify(sp.sin(a) - sp.sin(p)) == 0 and (a.func == sp.asin or (-a).func == sp.asin or a.could_extract_minus_sign())
            R.check(bool(ok), 'R3', inst, 'pitch is read as %s; on R = Rz Ry Rx the entry R(2,0) is -sin(pitch), so pitch = -asin(R(2,0))' % a, 'pitch = -asin(R(2,0)) = pitch', loc, 'E-ALG')
        else:
            if a.func != sp.atan2:
                R.undecided('R3', inst, 'not an atan2: %s' % a)
                continue
            A, B = a.args
            par = sp.simplify(A * sp.cos(ang) - B * sp.sin(ang))
            fac = sp.simplify(B / sp.cos(ang))
            R.check(par == 0 and sp.simplify(fac - sp.cos(p)) == 0, 'R3', inst, '%s is read as atan2(%s, %s): on R = Rz Ry Rx these must be (cos p sin %s, cos p cos %s); residual %s, common factor %s' % (
                name, A, B, name, name, par, fac), '%s = atan2(cos p sin, cos p cos)' % name, loc, 'E-ALG')


def check_planar(fx, R, S):
    fb, fe = fn1(fx, 'eulerAngleToRotation2D', S), fn1(fx, 'rotation2DToEulerAngle', S)
    if fb is None or fe is None:
        R.undecided('R4', 'planar<%s>' % S, 'instantiation missing')
        return
    R.used(fb, fe)
    rets = [x for x in walk(fb['body']) if x.get('k') == 'Return']
    ci = vec.comma_init(rets[0]['e']) if len(rets) == 1 else None
    if ci is None or len(ci[1]) != 4:
        R.undecided('R4', 'eulerAngleToRotation2D<%s>' % S, 'comma initialiser with four entries not found')
        return
    a = sp.Symbol('arg:eulerAngle', real=True)
    rd = sym.Reader(fx, call_hook=mat.hook)
    st = sym.State()
    st.locals[fb['params'][0]['id']] = a
    vals = rd.evs(ci[1], st, {'this': ('this',), 'fn': fb, 'depth': 0})[0][0]
    M = sp.Matrix(2, 2, vals)
    ortho = sp.simplify(M.T * M - sp.eye(2))
    det = sp.simplify(M.det())
    want = sp.Matrix([[sp.cos(a), -sp.sin(a)], [sp.sin(a), sp.cos(a)]])
    R.check(ortho == sp.zeros(2, 2) and det == 1 and sp.simplify(M - want) == sp.zeros(2, 2), 'R4', 'eulerAngleToRotation2D<%s>' % S,
            'matrix %s: R^T R - I = %s, det = %s (counter-clockwise rotation by the angle expected)' % (M.tolist(), ortho.tolist(), det), '[[c,-s],[s,c]] proper rotation', fx.rel(fb['loc']), 'E-ALG')
    rd2 = sym.Reader(fx, call_hook=ext_hook, member_hook=mat.member_hook)
    sts = rd2.run(fe, args=[sp.ImmutableMatrix(want)])
    v = sts[0].ret if len(sts) == 1 else None
    ok = isinstance(v, sp.Basic) and str(v.func) == 'mod2pi' and v.args[0].func == sp.atan2
    if ok:
        A, B = v.args[0].args
        ok = sp.simplify(A * sp.cos(a) - B * sp.sin(a)) == 0 and sp.simplify(B / sp.cos(a)).is_positive
    if ok:
        R.holds('R4', 'rotation2DToEulerAngle<%s>' % S, 'atan2(2 sin, 2 cos) = angle', fx.rel(fe['loc']), 'E-ALG')
        return
    # another form, or several paths: every path is evaluated on witness angles that satisfy its conditions - exact quarter and half turns included (a matrix built from the angle pi has an exact zero
    # sine term in exact arithmetic, as -I has in floating point); the angle must come back modulo 2 pi
    two_pi = 2 * sp.pi
    unmod = lambda e_: e_.replace(lambda x: isinstance(x, sp.core.function.AppliedUndef) and len(x.args) == 1 and str(x.func) == 'mod2pi', lambda x: x.args[0] - two_pi * sp.floor(x.args[0] / two_pi))
    wit = [sp.Integer(0), sp.Rational(3, 10), sp.Integer(2), sp.pi, -sp.pi, sp.pi / 2, 3 * sp.pi / 2, sp.Integer(4), sp.Integer(6), -sp.Rational(1, 2), sp.pi - sp.Rational(1, 10 ** 6)]
    verdict, n_ok = None, 0
    for st_ in sts:
        desc = ' && '.join(('' if c[2] else '!') + '(' + c[0] + ')' for c in st_.cond)
        if not isinstance(st_.ret, sp.Basic):
            verdict = verdict or ('undecided', 'a path returns something that is not readable (%s)' % type(st_.ret).__name__)
            continue
        for aw in wit:
            taken = True
            for c in st_.cond:
                if not isinstance(c[1], sp.Basic):
                    taken = None
                    break
                cv = sp.simplify(unmod(c[1]).subs(a, aw))
                if cv not in (sp.true, sp.false):
                    try:
                        cv = cv.func(sp.N(cv.lhs, 40), sp.N(cv.rhs, 40)) if hasattr(cv, 'lhs') else cv
                    except Exception:
                        pass
                if cv not in (sp.true, sp.false):
                    taken = None
                    break
                if bool(cv) != c[2]:
                    taken = False
                    break
            if taken is None:
                verdict = verdict or ('undecided', 'the condition of the path [%s] is not evaluable on the witness angles' % desc)
                break
            if not taken:
                continue
            try:
                got = sp.N(unmod(st_.ret).subs(a, aw), 30)
                d = sp.N(sp.Abs(sp.sin((got - aw) / 2)), 30)
            except Exception:
                verdict = verdict or ('undecided', 'the returned angle is not evaluable on the witness angles')
                continue
            if not d.is_real or d > sp.Float('1e-9'):
                verdict = ('violated', 'for the rotation by %s rad (the matrix of the library\'s own builder)%s the angle read back is %s: not the angle modulo 2 pi, so the planar round trip does not return the '
                           'rotation' % (aw, ' the path [%s] is taken and' % desc if desc else '', sp.N(got, 8)))
                break
            n_ok += 1
        if verdict and verdict[0] == 'violated':
            break
    if verdict and verdict[0] == 'violated':
        R.violated('R4', 'rotation2DToEulerAngle:value', verdict[1] + ' [%s]' % S, fx.rel(fe['loc']), 'E-ORD')
    elif verdict:
        R.undecided('R4', 'rotation2DToEulerAngle<%s>' % S, verdict[1])
    else:
        R.undecided('R4', 'rotation2DToEulerAngle<%s>' % S, 'not the enumerated form atan2(2 sin, 2 cos); the angle comes back on %d witness evaluations, which is not a proof' % n_ok)


def norm_hook(rd, e, st, ctx):
    if e.get('k') == 'Call' and (e.get('fn') or '').split('<')[0].endswith('fmod') and len(e.get('args', [])) == 2:
        out = []
        for (vals, s2) in rd.evs(e['args'], st, ctx):
            out.append((sp.Function('fmod')(*vals), s2))
        return out
    return NotImplemented


def check_normalisers(fx, R, S):
    two_pi = 2 * sp.pi
    for name, adv in (('between0And2Pi', sp.Interval.Ropen(0, two_pi)), ('betweenMinusPiAndPi', sp.Interval(-sp.pi, sp.pi))):
        f = fn1(fx, name, S)
        if f is None:
            R.undecided('R5', '%s<%s>' % (name, S), 'instantiation missing')
            continue
        cands = [(f, S)]
        if S == 'double':
            # overload resolution prefers a non-template overload with an exactly matching parameter: such overloads ARE the normaliser for their argument type (and for every
            # instantiation of the extractors that calls it with that type), so they are judged like the template
            for g in fx.functions.values():
                if g.get('body') is not None and g['q'] == NS + name and not g.get('cls') and len(g.get('params', [])) == 1:
                    cands.append((g, '%s overload' % (g['params'][0].get('t') or {}).get('s', '?')))
        for (f, S_) in cands:
            judge_normaliser(fx, R, f, name, S_, adv)


def judge_normaliser(fx, R, f, name, S, adv):
    two_pi = 2 * sp.pi
    for _once in (0,):
        R.used(f)
        try:
            paths = sym.Reader(fx, call_hook=norm_hook).run(f)
        except sym.Unsupported as u:
            R.undecided('R5', '%s<%s>' % (name, S), str(u))
            continue
        val = sp.Symbol('arg:' + f['params'][0]['name'], real=True)
        loc = fx.rel(f['loc'])
        for n, st in enumerate(paths):
            r = st.ret
            desc = ' && '.join(('' if c[2] else '!') + '(' + c[0] + ')' for c in st.cond)
            inst = '%s<%s>[%s]' % (name, S, desc)
            if not isinstance(r, sp.Basic):
                R.undecided('R5', inst, 'result not interpretable')
                continue
            fm = [a for a in r.atoms(sp.core.function.AppliedUndef) if str(a.func) == 'fmod']
            if fm:
                f0 = fm[0]
                near2pi = sp.simplify(f0.args[1] - two_pi) == 0 or (f0.args[1].is_number and abs(sp.N(f0.args[1] - two_pi, 30)) < sp.Float('1e-6'))      # 2 pi, or its rounding to the scalar type
                pre = sp.simplify(f0.args[0] - val)            # a constant added before folding (fmod(val + 2 pi, 2 pi), fmod(val + pi, 2 pi) - pi): the sign of the folded value follows the shifted argument
                okmod = near2pi and pre.is_number and not pre.free_symbols
                var = sp.Symbol('f', real=True)
                if okmod:
                    lo, hi = sp.N(-4 * sp.pi + pre, 30), sp.N(4 * sp.pi + pre, 30)
                    base = sp.Interval.Ropen(0, two_pi) if lo >= 0 else sp.Interval.Lopen(-two_pi, 0) if hi <= 0 else sp.Interval.open(-two_pi, two_pi)       # fmod takes the sign of its first argument
                else:
                    base = sp.Interval.open(-two_pi, two_pi)
                rr = r.subs(f0, var)
                pre0 = pre if okmod else 0                               # congruence is judged against the input: result - value = (result - folded) + pre (mod 2 pi)
                conds = [(c[1].subs(f0, var), c[2]) for c in st.cond if isinstance(c[1], sp.Basic)]
                M_ = f0.args[1]
                if not okmod and pre.is_number and M_.is_number and 0 < sp.N(M_, 30) < sp.N(4 * sp.pi, 30) and abs(sp.N(M_ / two_pi - round(float(M_ / two_pi)), 30)) > sp.Float('1e-6'):
                    R.violated('R5', '%s<%s>:modulus' % (name, S), 'the reduction folds by %s, not by 2 pi: for inputs beyond that modulus (all |value| < 4 pi are allowed) the result differs from the input by a multiple of '
                               '%s, which is not a multiple of a full turn' % (M_, M_), loc, 'E-INT')
                    continue
                if not okmod:
                    R.undecided('R5', '%s<%s>:modulus' % (name, S), 'the reduction is %s, not a fold of (value + constant) by 2 pi: a form outside the enumerated ones' % f0)
                    continue
            else:
                # no reduction: the input range of the quantifier applies directly
                base = sp.Interval.open(-4 * sp.pi, 4 * sp.pi)
                var = val
                rr = r
                pre0 = 0
                conds = [(c[1], c[2]) for c in st.cond if isinstance(c[1], sp.Basic)]
            shift = sp.simplify(rr - var)
            k = sp.simplify((shift + pre0) / two_pi)
            if not k.is_Integer and k.is_number and abs(sp.N(k - sp.Integer(round(float(k))), 30)) < sp.Float('1e-6'):
                k = sp.Integer(round(float(k)))            # a multiple of 2 pi rounded to the scalar type
                shift = k * two_pi - pre0
            if not k.is_Integer:
                R.violated('R5', '%s<%s>:congruence' % (name, S), 'on the path [%s] the result differs from the input by %s (plus whole folds), not by a multiple of 2 pi' % (desc, sp.simplify(shift + pre0)), loc, 'E-INT')
                continue
            dom = base
            okc = True
            for (c, pol) in conds:
                s_ = rel_set(c, var, pol)
                if s_ is None:
                    okc = False
                    break
                dom = dom.intersect(s_)
            if not okc:
                R.undecided('R5', inst, 'path condition not a comparison of the reduced value with a constant')
                continue
            if dom == sp.EmptySet:
                R.holds('R5', inst, 'infeasible path', loc, 'E-INT')
                continue
            img = shift_set(dom, shift)
            if img.is_subset(adv):
                R.holds('R5', inst, 'value in %s maps to %s, inside %s, congruent (k=%s)' % (dom, img, adv, k), loc, 'E-INT')
            else:
                R.violated('R5', '%s<%s>:range' % (name, S), 'on the path [%s] inputs reduced to %s are returned as %s, outside the advertised %s%s' % (
                    desc, dom, img, adv, '' if fm else ' (no reduction modulo 2 pi is applied, inputs range over (-4 pi, 4 pi))'), loc, 'E-INT')


def rel_set(c, var, pol):
    if not isinstance(c, (sp.Lt, sp.Gt, sp.Le, sp.Ge)):
        return None
    if c.lhs == var and c.rhs.is_number:
        a, op = c.rhs, type(c)
    elif c.rhs == var and c.lhs.is_number:
        a = c.lhs
        op = {sp.Lt: sp.Gt, sp.Gt: sp.Lt, sp.Le: sp.Ge, sp.Ge: sp.Le}[type(c)]
    else:
        return None
    if not pol:
        op = {sp.Lt: sp.Ge, sp.Gt: sp.Le, sp.Le: sp.Gt, sp.Ge: sp.Lt}[op]
    return {sp.Lt: sp.Interval.open(-sp.oo, a), sp.Le: sp.Interval(-sp.oo, a), sp.Gt: sp.Interval.open(a, sp.oo), sp.Ge: sp.Interval(a, sp.oo)}[op]


def shift_set(dom, k):
    if isinstance(dom, sp.Interval):
        return sp.Interval(dom.start + k, dom.end + k, dom.left_open, dom.right_open)
    if isinstance(dom, sp.Union):
        return sp.Union(*[shift_set(a, k) for a in dom.args])
    if isinstance(dom, sp.FiniteSet):
        return sp.FiniteSet(*[x + k for x in dom])
    return dom


def fields_of(ret, suffixes):
    out = {}
    if isinstance(ret, dict):
        for k, v in ret.items():
            out[k] = v
    return out


def check_polar(fx, R, S):
    ft = fn1(fx, 'toPolar', S)
    fc = [f for f in fx.fn(NS + 'toCartesian<%s>' % S) if 'PolarCoordinates' in f['sig']]
    if ft is None or len(fc) != 1:
        R.undecided('R6', 'polar<%s>' % S, 'instantiation missing')
        return
    fc = fc[0]
    R.used(ft, fc)
    rd = sym.Reader(fx, call_hook=mat.hook, member_hook=mat.member_hook)
    try:
        cs = rd.run(fc)
    except sym.Unsupported as u:
        R.undecided('R6', 'polar<%s>' % S, str(u))
        return
    if len(cs) != 1 or not isinstance(cs[0].ret, sp.MatrixBase):
        R.undecided('R6', 'toCartesian(Polar<%s>)' % S, 'result not readable: %s' % (cs[0].ret if cs else None))
        return
    XY = cs[0].ret
    syms = {s.name: s for s in XY.free_symbols}
    rn = [n for n in syms if n.endswith('range_')]
    an = [n for n in syms if n.endswith('azimut_')]
    if len(rn) != 1 or len(an) != 1:
        R.undecided('R6', 'toCartesian(Polar<%s>)' % S, 'does not depend on exactly range and azimut: %s' % sorted(syms))
        return
    r, a = syms[rn[0]], syms[an[0]]
    def pdom(s_):
        return (1, 1000) if s_.name.endswith('range_') else (-314, 314) if s_.name.endswith('azimut_') else None

    def opaque_in(*vals):
        return [str(f_)[:60] for v in vals if isinstance(v, sp.Basic) for f_ in v.atoms(sp.core.function.AppliedUndef)]
    if opaque_in(XY[0], XY[1]):
        R.undecided('R6', 'toCartesian(Polar<%s>)' % S, 'the Cartesian point contains uninterpreted operations (%s)' % opaque_in(XY[0], XY[1])[0])
    else:
        alg.check_zero(R, sp.Matrix([XY[0] - r * sp.cos(a), XY[1] - r * sp.sin(a)]), 'R6', 'toCartesian(Polar<%s>)' % S, 'Cartesian point is %s, expected (r cos a, r sin a)' % (str(XY.T.tolist())[:200],),
                       '(r cos a, r sin a)', fx.rel(fc['loc']), domain=pdom)
    try:
        ps = rd.run(ft, args=[sp.ImmutableMatrix(XY)])
    except sym.Unsupported as u:
        R.undecided('R6', 'toPolar<%s>' % S, str(u))
        return
    ret = ps[0].ret if len(ps) == 1 else None
    if not isinstance(ret, dict):
        R.undecided('R6', 'toPolar<%s>' % S, 'result not readable: %s' % (ret,))
        return
    rr = next((v for k, v in ret.items() if k.endswith('range_')), None)
    aa = next((v for k, v in ret.items() if k.endswith('azimut_')), None)
    if not (isinstance(rr, sp.Basic) and isinstance(aa, sp.Basic)):
        R.undecided('R6', 'toPolar<%s>' % S, 'range / azimut not readable: %s, %s' % (rr, aa))
        return
    if opaque_in(rr, aa):
        R.undecided('R6', 'toPolar<%s>' % S, 'the result contains uninterpreted operations (%s)' % opaque_in(rr, aa)[0])
        return
    if aa.func == sp.atan2:
        # atan2(A, B) = a on (-pi, pi) iff (A, B) is a positive multiple of (sin a, cos a)
        A, B = aa.args
        resid = sp.Matrix([sp.simplify(rr ** 2 - r ** 2), sp.simplify(A * sp.cos(a) - B * sp.sin(a)), sp.simplify(A * sp.sin(a) + B * sp.cos(a) - r)])
    else:
        resid = sp.Matrix([rr ** 2 - r ** 2, aa - a])
    alg.check_zero(R, resid, 'R6', 'toPolar<%s>' % S, 'toPolar(toCartesian(r,a)) gives range %s, azimut %s (r > 0, a in (-pi, pi))' % (str(rr)[:160], str(aa)[:160]),
                   'range = r, azimut = atan2(r sin a, r cos a)', fx.rel(ft['loc']), domain=pdom)


def check_spherical(fx, R, S):
    fcs = [f for f in fx.fn(NS + 'toCartesian<%s>' % S) if 'SphericalCoordinates' in f['sig']]
    fts = [f for f in fx.fn(NS + 'toSpherical<%s>' % S) if 'Homogeneous' not in f['sig']]
    fth = [f for f in fx.fn(NS + 'toSpherical<%s>' % S) if 'Homogeneous' in f['sig']]
    if len(fcs) != 1 or len(fts) != 1:
        R.undecided('R6', 'spherical<%s>' % S, 'instantiation missing')
        return
    fc, ft = fcs[0], fts[0]
    R.used(fc, ft)
    rd = sym.Reader(fx, call_hook=mat.hook, member_hook=mat.member_hook)
    try:
        cs = rd.run(fc)
    except sym.Unsupported as u:
        R.undecided('R6', 'spherical<%s>' % S, str(u))
        return
    if len(cs) != 1 or not isinstance(cs[0].ret, sp.MatrixBase):
        R.undecided('R6', 'toCartesian(Spherical<%s>)' % S, 'result not readable')
        return
    P = cs[0].ret
    syms = {s.name: s for s in P.free_symbols}
    try:
        r = syms[[n for n in syms if n.endswith('range_')][0]]
        a = syms[[n for n in syms if n.endswith('azimut_')][0]]
        e = syms[[n for n in syms if n.endswith('elevation_')][0]]
    except IndexError:
        R.undecided('R6', 'toCartesian(Spherical<%s>)' % S, 'does not depend on range, azimut and elevation: %s' % sorted(syms))
        return
    want = sp.Matrix([r * sp.cos(a) * sp.sin(e), r * sp.sin(a) * sp.sin(e), r * sp.cos(e)])
    R.check(sp.simplify(sp.Matrix(P) - want) == sp.zeros(3, 1), 'R6', 'toCartesian(Spherical<%s>)' % S, 'Cartesian point is %s' % (P.T.tolist(),), 'r (cos a sin e, sin a sin e, cos e)',
            fx.rel(fc['loc']), 'E-ALG')
    _spherical_back(fx, R, S, rd, ft, sp.ImmutableMatrix(want), want, r, a, e, '')
    # the homogeneous overload is a Cartesian -> spherical conversion too: the point (x, y, z, 1) has the same spherical coordinates
    for fh in fth:
        R.used(fh)
        _spherical_back(fx, R, S, rd, fh, sp.ImmutableMatrix(list(want) + [1]), want, r, a, e, '/homogeneous')
    check_scalar_transforms(fx, R, S)
    check_point_transforms(fx, R, S)
    check_to_homogeneous(fx, R, S)


def check_scalar_transforms(fx, R, S):
    """R6: the scalar overloads of SphericalTransform / PolarTransform (arguments are plain numbers: nothing but their NAMES says which is which) are read with the argument each parameter name stands for and
    must return the coordinate their own name stands for, on witness points of the quantifier (evaluated to 30 digits; angles compared modulo 2 pi)."""
    rr, aa, ee = sp.Rational(7, 4), sp.Rational(-11, 10), sp.Rational(6, 5)
    wit3 = [(rr, aa, ee), (sp.Rational(1, 10 ** 5), sp.Rational(5, 2), sp.Rational(1, 3)), (sp.Integer(10 ** 5), sp.Rational(-3, 1), sp.Rational(29, 10)),
            # points exactly on a coordinate axis / in a coordinate plane (a component that is exactly zero), and a very elongated one
            (rr, sp.Integer(0), ee), (rr, sp.pi / 2, ee), (sp.Rational(25, 2), sp.pi, sp.pi / 2), (sp.Integer(3), -sp.pi / 2, sp.pi / 2), (sp.Integer(100), sp.Rational(1, 10 ** 22), sp.pi / 2)]
    for cls, dim in (('SphericalTransform', 3), ('PolarTransform', 2)):
        fns_ = [f for f in fx.functions.values() if f['q'].startswith(NS + cls + '::') and f['q'].endswith('<%s>' % S) and f.get('body') is not None and f.get('params')
                and all((p_.get('t') or {}).get('c') == 'fp' for p_ in f['params'])]
        for f in sorted(fns_, key=lambda f: (f['name'], len(f['params']))):
            R.used(f)
            inst = '%s::%s(%s)<%s>' % (cls, f['name'], ', '.join(p_['name'] for p_ in f['params']), S)
            bad, unknown = None, None
            for (r_, a_, e_) in wit3:
                if dim == 3:
                    env = {'range': r_, 'azimut': a_, 'elevation': e_, 'x': r_ * sp.cos(a_) * sp.sin(e_), 'y': r_ * sp.sin(a_) * sp.sin(e_), 'z': r_ * sp.cos(e_)}
                else:
                    env = {'range': r_, 'azimut': a_, 'x': r_ * sp.cos(a_), 'y': r_ * sp.sin(a_)}
                if f['name'] not in env or any(p_['name'] not in env for p_ in f['params']):
                    unknown = 'a parameter name is not one of the coordinates (%s)' % [p_['name'] for p_ in f['params']]
                    break
                try:
                    sts = sym.Reader(fx, call_hook=mat.hook).run(f, args=[env[p_['name']] for p_ in f['params']])
                except sym.Unsupported as u:
                    unknown = str(u)
                    break
                if len(sts) != 1 or not isinstance(sts[0].ret, sp.Basic):
                    unknown = 'result not readable'
                    break
                try:
                    got = sp.N(sts[0].ret, 30)
                    wantv = sp.N(env[f['name']], 30)
                    d = sp.Abs(sp.sin((got - wantv) / 2)) if f['name'] in ('azimut', 'elevation') else sp.Abs(got - wantv) / (sp.Abs(wantv) + 1)
                    d = sp.N(d, 20)
                except Exception:
                    unknown = 'not evaluable on the witness point'
                    break
                if not (d.is_real and d < sp.Float('1e-12')):
                    bad = bad or ((r_, a_, e_) if dim == 3 else (r_, a_), got, wantv)
            if bad:
                R.violated('R6', '%s::%s(scalars):value' % (cls, f['name']), 'called with the coordinates its parameter names stand for (%s) at the point (range, azimut%s) = %s, %s() returns %s, not the %s %s of that '
                           'point: the scalar API is not the inverse map there (a scalar argument handed on in the wrong position, a special case that misfires ...) [%s]' % (
                               ', '.join(p_['name'] for p_ in f['params']), ', elevation' if dim == 3 else '', tuple(str(v_) for v_ in bad[0]), f['name'], sp.N(bad[1], 8), f['name'], sp.N(bad[2], 8), S),
                           fx.rel(f['loc']), 'E-ORD')
            elif unknown:
                R.undecided('R6', inst, unknown)
            else:
                R.holds('R6', inst, 'returns the coordinate it is named after on %d witness points' % len(wit3), fx.rel(f['loc']), 'E-ORD')


def check_point_transforms(fx, R, S):
    """R6: the POINT overloads of SphericalTransform / PolarTransform (azimut / range / elevation of a Cartesian or homogeneous point), read on witness points: they must return the coordinate they are named
    after (the conversions and the scalar overloads are judged separately; these are public entry points of their own)."""
    import re
    rr, aa, ee = sp.Rational(7, 4), sp.Rational(-11, 10), sp.Rational(6, 5)
    wit3 = [(rr, aa, ee), (sp.Rational(1, 10 ** 5), sp.Rational(5, 2), sp.Rational(1, 3)), (sp.Integer(10 ** 5), sp.Rational(-3, 1), sp.Rational(29, 10)),
            # points exactly on a coordinate axis / in a coordinate plane (a component that is exactly zero), and a very elongated one
            (rr, sp.Integer(0), ee), (rr, sp.pi / 2, ee), (sp.Rational(25, 2), sp.pi, sp.pi / 2), (sp.Integer(3), -sp.pi / 2, sp.pi / 2), (sp.Integer(100), sp.Rational(1, 10 ** 22), sp.pi / 2)]
    n = 0
    for cls, dim in (('SphericalTransform', 3), ('PolarTransform', 2)):
        fns_ = [f for f in fx.functions.values() if f['q'].startswith(NS + cls + '::') and f.get('body') is not None and len(f.get('params', [])) == 1
                and (f['params'][0].get('t') or {}).get('c') == 'rec' and f['name'] in ('azimut', 'range', 'elevation')]
        for f in sorted(fns_, key=lambda f: (f['name'], f['sig'])):
            ts = f['params'][0]['t']['s']
            if ('<%s' % S) not in ts and ('<%s>' % S) not in f['q']:
                continue
            mm = re.search(r'Matrix<[a-z ]+, (\d), 1', ts)
            hh = re.search(r'HomogeneousCoordinates(\d)<', ts)
            size = int(mm.group(1)) if mm else int(hh.group(1)) + 1 if hh else None
            if size is None or size not in (dim, dim + 1):
                continue
            R.used(f)
            n += 1
            inst = '%s::%s(%s)' % (cls, f['name'], ts.replace('const ', '').replace('romea::core::', '').rstrip(' &'))
            bad = unknown = None
            for (r_, a_, e_) in wit3:
                if dim == 3:
                    pt = [r_ * sp.cos(a_) * sp.sin(e_), r_ * sp.sin(a_) * sp.sin(e_), r_ * sp.cos(e_)]
                    env = {'range': r_, 'azimut': a_, 'elevation': e_}
                else:
                    pt = [r_ * sp.cos(a_), r_ * sp.sin(a_)]
                    env = {'range': r_, 'azimut': a_}
                if size == dim + 1:
                    pt = pt + [sp.Integer(1)]
                try:
                    sts = sym.Reader(fx, call_hook=mat.hook, member_hook=mat.member_hook).run(f, args=[sp.ImmutableMatrix(pt)])
                except sym.Unsupported as u:
                    unknown = str(u)
                    break
                if len(sts) != 1 or not isinstance(sts[0].ret, sp.Basic) or sts[0].ret.atoms(sp.core.function.AppliedUndef):
                    unknown = 'result not readable'
                    break
                try:
                    got, wantv = sp.N(sts[0].ret, 30), sp.N(env[f['name']], 30)
                    d = sp.N(sp.Abs(sp.sin((got - wantv) / 2)) if f['name'] in ('azimut', 'elevation') else sp.Abs(got - wantv) / (sp.Abs(wantv) + 1), 20)
                except Exception:
                    unknown = 'not evaluable on the witness point'
                    break
                if not (d.is_real and d < sp.Float('1e-12')):
                    bad = bad or (tuple(sp.N(v_, 6) for v_ in pt), got, wantv)
            if bad:
                R.violated('R6', '%s::%s(point):value' % (cls, f['name']), 'for the point %s, %s() returns %s; the %s of that point is %s [%s]' % (
                    bad[0], f['name'], sp.N(bad[1], 8), f['name'], sp.N(bad[2], 8), inst), fx.rel(f['loc']), 'E-ORD')
            elif unknown:
                R.undecided('R6', inst, unknown)
            else:
                R.holds('R6', inst, 'returns the coordinate it is named after on %d witness points' % len(wit3), fx.rel(f['loc']), 'E-ORD')
    return n


def check_to_homogeneous(fx, R, S):
    """R6: toHomogeneous(PolarCoordinates) / toHomogeneous(SphericalCoordinates) - overloads of their own, not wrappers of toCartesian - read on witness points: they must give the Cartesian point with
    a homogeneous coordinate of 1."""
    def hook(rd, e, st, ctx):
        if e.get('k') == 'Construct' and 'HomogeneousCoordinates' in (e.get('cls') or '') and len(e.get('args', [])) in (2, 3):
            out = []
            for (vals, s2) in rd.evs(e['args'], st, ctx):
                if not all(isinstance(v_, sp.Basic) for v_ in vals):
                    return NotImplemented
                out.append((sp.ImmutableMatrix(list(vals) + [sp.Integer(1)]), s2))
            return out
        return mat.hook(rd, e, st, ctx)
    wit = [(sp.Rational(7, 4), sp.Rational(-11, 10), sp.Rational(6, 5)), (sp.Integer(3), sp.Rational(5, 2), sp.Rational(1, 3)), (sp.Rational(1, 100), sp.Rational(2, 7), sp.Rational(29, 10)), (sp.Integer(5), sp.Integer(0), sp.pi / 2)]
    n = 0
    for g in sorted((g for g in fx.functions.values() if g['name'] == 'toHomogeneous' and g.get('body') is not None and len(g.get('params', [])) == 1
                     and ('PolarCoordinates<%s>' % S in g['sig'].split('(')[1] or 'SphericalCoordinates<%s>' % S in g['sig'].split('(')[1])), key=lambda g: g['sig']):
        sph = 'SphericalCoordinates<' in g['sig'].split('(')[1]
        inst = 'toHomogeneous(%s<%s>)' % ('Spherical' if sph else 'Polar', S)
        R.used(g)
        n += 1
        bad = unknown = None
        for (r_, a_, e_) in wit:
            arg = {'range_': r_, 'azimut_': a_}
            want = [r_ * sp.cos(a_), r_ * sp.sin(a_), sp.Integer(1)]
            if sph:
                arg['elevation_'] = e_
                want = [r_ * sp.cos(a_) * sp.sin(e_), r_ * sp.sin(a_) * sp.sin(e_), r_ * sp.cos(e_), sp.Integer(1)]
            try:
                sts = sym.Reader(fx, call_hook=hook, member_hook=mat.member_hook).run(g)
            except sym.Unsupported as u:
                unknown = str(u)
                break
            if len(sts) != 1 or not isinstance(sts[0].ret, sp.MatrixBase) or len(sts[0].ret) != len(want):
                unknown = 'result not readable: %s' % (str(sts[0].ret)[:80] if sts else None)
                break
            subs_ = {y_: arg[k_] for y_ in sts[0].ret.free_symbols for k_ in arg if y_.name.endswith(k_)}
            if set(sts[0].ret.free_symbols) - set(subs_):
                unknown = 'result depends on %s' % sorted(str(y_) for y_ in set(sts[0].ret.free_symbols) - set(subs_))[:2]
                break
            try:
                d = max(abs(sp.N(sts[0].ret[i_].subs(subs_) - want[i_], 30)) for i_ in range(len(want)))
            except Exception:
                unknown = 'not evaluable on the witness point'
                break
            if not (d.is_real and d < sp.Float('1e-12') * (1 + abs(sp.N(r_)))):
                bad = bad or ((r_, a_, e_) if sph else (r_, a_), [sp.N(v_.subs(subs_), 6) for v_ in sts[0].ret], [sp.N(v_, 6) for v_ in want])
        if bad:
            R.violated('R6', '%s:value' % inst.split('<')[0].rstrip('(') + ')', 'for the point (range, azimut%s) = %s, %s returns %s; the Cartesian point with homogeneous coordinate 1 is %s: this overload is not the '
                       'inverse of the Cartesian-to-%s conversion (it is a function of its own, not a wrapper of toCartesian) [%s]' % (', elevation' if sph else '', tuple(str(v_) for v_ in bad[0]), inst, bad[1], bad[2],
                                                                                                                                    'spherical' if sph else 'polar', S), fx.rel(g['loc']), 'E-ORD')
        elif unknown:
            R.undecided('R6', inst, unknown)
        else:
            R.holds('R6', inst, 'gives (toCartesian(point), 1) on %d witness points' % len(wit), fx.rel(g['loc']), 'E-ORD')
    return n


def _spherical_back(fx, R, S, rd, ft, arg, want, r, a, e, tag):
    try:
        ps = rd.run(ft, args=[arg])
    except sym.Unsupported as u:
        R.undecided('R6', 'toSpherical%s<%s>' % (tag, S), str(u))
        return
    if len(ps) > 1:
        # several paths: each is tried on witness points of the quantifier (norm 1e-6 .. 1e6); a path taken there must return the point's
        # own coordinates; the path generic points take gets the symbolic rule
        generic = None
        for st_ in ps:
            desc = ' && '.join(('' if c_[2] else '!') + '(' + c_[0] + ')' for c_ in st_.cond)
            reached, bad = 0, None
            for rv in (sp.Rational(1, 10 ** 6), sp.Rational(1, 10 ** 5), sp.Rational(1, 10 ** 4), sp.Rational(1, 1000), sp.Integer(1), sp.Integer(10 ** 6)):
                env = {r: rv, a: sp.Rational(7, 10), e: sp.Rational(11, 10)}
                ok_ = True
                for c_ in st_.cond:
                    if not isinstance(c_[1], sp.Basic):
                        continue
                    v_ = c_[1].subs(env)
                    if v_ not in (sp.true, sp.false) and hasattr(v_, 'lhs'):
                        v_ = v_.func(sp.N(v_.lhs, 40), sp.N(v_.rhs, 40))
                    if v_ not in (sp.true, sp.false):
                        ok_ = None
                        break
                    if bool(v_) != c_[2]:
                        ok_ = False
                        break
                if not ok_:
                    continue
                reached += 1
                if rv == 1:
                    generic = st_
                rt = st_.ret if isinstance(st_.ret, dict) else None
                rg = next((v for k_, v in (rt or {}).items() if k_.endswith('range_')), None)
                if rg is None or abs(sp.N(sp.sympify(rg).subs(env), 30) - sp.N(rv, 30)) > sp.N(rv, 30) * sp.Float('1e-9'):
                    bad = bad or (rv, rg)
            if bad:
                R.violated('R6', 'toSpherical%s:special-path' % tag, 'on the path [%s] a point of norm %s (the quantifier has norms from 1e-6) comes back with range %s: spherical -> Cartesian -> spherical is not the '
                           'identity there [%s]' % (desc, sp.N(bad[0], 3), bad[1], S), fx.rel(ft['loc']), 'E-ORD')
            elif reached == 0:
                R.holds('R6', 'toSpherical%s<%s>:path[%s]' % (tag, S, desc), 'not taken by any witness norm of the quantifier (1e-6 .. 1e6)', fx.rel(ft['loc']), 'E-ORD')
        ps = [generic] if generic is not None else ps
    ret = ps[0].ret if len(ps) == 1 else None
    if not isinstance(ret, dict):
        R.undecided('R6', 'toSpherical%s<%s>' % (tag, S), 'result not readable: %s' % (ret,))
        return
    rr = next((v for k, v in ret.items() if k.endswith('range_')), None)
    aa = next((v for k, v in ret.items() if k.endswith('azimut_')), None)
    ee = next((v for k, v in ret.items() if k.endswith('elevation_')), None)
    inst = 'toSpherical%s<%s>' % (tag, S)
    loc = fx.rel(ft['loc'])
    why = ('range %s azimut %s elevation %s' % (rr, aa, ee))[:700]
    if not all(isinstance(v, sp.Basic) for v in (rr, aa, ee)):
        R.undecided('R6', inst, 'result fields not readable: %s' % why)
        return
    opaque = [str(f_) for v in (rr, aa, ee) for f_ in v.atoms(sp.core.function.AppliedUndef)] + [x_.name for v in (rr, aa, ee) for x_ in v.free_symbols if x_.name.startswith('fn:')]
    if opaque:
        R.undecided('R6', inst, 'the result contains uninterpreted operations (%s): %s' % (sorted(set(opaque))[0][:80], why))
        return

    def dom(s_):
        n_ = s_.name
        return (1, 1000) if n_.endswith('range_') else (5, 300) if n_.endswith('elevation_') else (-300, 300) if n_.endswith('azimut_') else None
    vr = alg.decide_zero(rr ** 2 - r ** 2, domain=dom)
    if vr[0] == 'nonzero':
        R.violated('R6', inst, 'toSpherical(toCartesian(r, a, e)) returns a range whose square differs from r^2 by %s at %s (range is read as %s): Cartesian -> spherical does not invert spherical -> Cartesian%s' % (
            vr[2], alg.witness_text(vr[1])[:160], str(rr)[:200], ' for a homogeneous point (x, y, z, 1)' if tag else ''), loc, 'E-ALG')
        return
    for (nm_, got_, ref_) in (('azimut', aa, a), ('elevation', ee, e)):
        vv = alg.decide_zero(got_ - ref_, domain=dom)
        if vv[0] == 'nonzero':
            R.violated('R6', inst, 'toSpherical(toCartesian(r, a, e)) returns the %s %s, which differs from the %s it started from by %s at %s (azimut in (-pi, pi), elevation in (0, pi), range > 0): '
                       'Cartesian -> spherical does not invert spherical -> Cartesian%s' % (nm_, str(got_)[:200], nm_, vv[2], alg.witness_text(vv[1])[:160], ' for a homogeneous point (x, y, z, 1)' if tag else ''), loc, 'E-ALG')
            return
    if vr[0] != 'zero' or aa.func != sp.atan2 or ee.func != sp.acos:
        R.undecided('R6', inst, 'not the enumerated form (range r, azimut atan2(y,x), elevation acos(z/r)): %s' % why)
        return
    A, B = aa.args
    rp = sp.Symbol('rpos', positive=True)
    arg = sp.simplify(ee.args[0].subs(r, rp))
    ok = sp.simplify(A * sp.cos(a) - B * sp.sin(a)) == 0 and sp.simplify(B / sp.cos(a) - r * sp.sin(e)) == 0 and sp.simplify(arg - sp.cos(e)) == 0
    R.check(bool(ok), 'R6', inst, 'toSpherical(toCartesian(r,a,e)) gives %s' % why, 'range r, azimut atan2(y,x), elevation acos(z/r)', loc, 'E-ALG')
