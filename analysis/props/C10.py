"""C10 - angle / rotation / coordinate parametrisations are mutually consistent.

Rules
  W1  every API the property quantifies over instantiates for float AND double (compile-time witnesses)
  (E-ALG / E-SIB / E-INT rules R1..R6 are in C10_alg.py)
Not decided: 2*pi wrap to rounding, gimbal-lock neighbourhood."""
from .. import ewit

LEVEL = 'other'
UNITS = ['src/transform/SmartRotation3D.cpp', 'verif:inst_math.cpp']
ENGINES = 'E-WIT + E-ALG + E-SIB + E-INT over romea-facts'
TECHNIQUE = 'toHomogeneous of polar and spherical points evaluated against the Cartesian point, builders evaluated on the wrapped pitch representative the extraction returns, point overloads of the coordinate transforms on witness points incl. exactly-zero components (homogeneous ones instantiated through calls), folds of value + constant with the sign of fmod taken from the shifted range, forwarding of the angles by every constructor and init overload, user-written copy assignment (sweep H3), scalar overloads of the coordinate transforms judged by their parameter names on witness points, non-template normaliser overloads, planar angle read per path with exact half turns, SmartRotation3D judged by what R() and operator*() return on the state each path of init() leaves (first access), rotation-matrix builder read path by path on small-angle witnesses, AngleAxis / Quaternion read as (w, x, y, z) values with Hamilton products on witness angles of every path, value rules for polar and spherical conversions incl. the homogeneous overload, Eigen eulerAngles range fact, sweep of every function read (and its in-repo callees) for frozen function-local statics, single precision inside double computations, lossy copy constructors, presence- or argument-keyed member caches, reference members bound to constructor arguments, loop accumulators that are members, members derived in the constructor and not refreshed by setters, results returned by reference to a member buffer, members filled from an argument under a condition that ignores it, hidden non-virtual base members, self-bound reference members, reductions that accumulate in float; constructors judged by the value of R_ (entries from uninitialised storage), multi-path toSpherical on witness norms; multi-path Euler extraction on boundary witness angles, closed-form quaternion extraction on unit and non-unit witness quaternions; compile-time instantiation witnesses (clang -fsyntax-only); exact algebra on the extracted rotation/coordinate formulas; range typing of the angle normalisers'
EXPLANATION = ('Every parametrisation API is instantiated for float and double in one witness unit; rotation builders, the Euler extraction, the normalisers and the '
               'polar/spherical maps are read as formulas and checked by exact algebra / range typing (C10_alg).')
ASSUMPTIONS = ['exact real arithmetic for the algebraic identities; |pitch| < pi/2; point norm > 0']
LEVEL_TEXT = ('All listed conversions exist for float and double (a missing instantiation is a compile error for every caller), and the formulas of builders/extractors/normalisers '
              'satisfy the inverse-pair identities in exact arithmetic for all inputs of the quantifier.')
LEVEL_NOTE = 'Not decided: behaviour within rounding of 2*pi and near gimbal lock. Trusted: clang front end, extractor, sympy.'

NS = 'romea::core::'
WITNESSES = {'headers': ['romea_core_common/math/EulerAngles.hpp', 'romea_core_common/coordinates/PolarCoordinates.hpp',
                         'romea_core_common/coordinates/SphericalCoordinates.hpp', 'romea_core_common/transform/SmartRotation3D.hpp'],
             'compiles': []}
for S in ('float', 'double'):
    W = WITNESSES['compiles']
    W.append(('between0And2Pi<%s>' % S, 'template %s romea::core::between0And2Pi<%s>(%s);' % (S, S, S)))
    W.append(('betweenMinusPiAndPi<%s>' % S, 'template %s romea::core::betweenMinusPiAndPi<%s>(%s);' % (S, S, S)))
    W.append(('rotation2DToEulerAngle<%s>' % S, 'template %s romea::core::rotation2DToEulerAngle<%s>(const Eigen::Matrix<%s,2,2>&);' % (S, S, S)))
    W.append(('eulerAngleToRotation2D<%s>' % S, 'template Eigen::Matrix<%s,2,2> romea::core::eulerAngleToRotation2D<%s>(const %s&);' % (S, S, S)))
    W.append(('rotation3DToEulerAngles<%s>' % S, 'template Eigen::Matrix<%s,3,1> romea::core::rotation3DToEulerAngles<%s>(const Eigen::Matrix<%s,3,3>&);' % (S, S, S)))
    W.append(('quaternionToEulerAngles<%s>' % S, 'template Eigen::Matrix<%s,3,1> romea::core::quaternionToEulerAngles<%s>(const Eigen::Quaternion<%s>&);' % (S, S, S)))
    W.append(('eulerAnglesToQuaternion<%s>' % S, 'template Eigen::Quaternion<%s> romea::core::eulerAnglesToQuaternion<%s>(const Eigen::Matrix<%s,3,1>&);' % (S, S, S)))
    W.append(('eulerAnglesToRotation3D<%s>' % S, 'template Eigen::Matrix<%s,3,3> romea::core::eulerAnglesToRotation3D<%s>(const Eigen::Matrix<%s,3,1>&);' % (S, S, S)))
    W.append(('toPolar<%s>' % S, 'template romea::core::PolarCoordinates<%s> romea::core::toPolar<%s>(const romea::core::CartesianCoordinates2<%s>&);' % (S, S, S)))
    W.append(('toCartesian(Polar<%s>)' % S, 'template romea::core::CartesianCoordinates2<%s> romea::core::toCartesian<%s>(const romea::core::PolarCoordinates<%s>&);' % (S, S, S)))
    W.append(('toHomogeneous(Polar<%s>)' % S, 'template romea::core::HomogeneousCoordinates2<%s> romea::core::toHomogeneous<%s>(const romea::core::PolarCoordinates<%s>&);' % (S, S, S)))
    W.append(('toSpherical(Cartesian3<%s>)' % S, 'template romea::core::SphericalCoordinates<%s> romea::core::toSpherical<%s>(const romea::core::CartesianCoordinates3<%s>&);' % (S, S, S)))
    W.append(('toSpherical(Homogeneous3<%s>)' % S, 'template romea::core::SphericalCoordinates<%s> romea::core::toSpherical<%s>(const romea::core::HomogeneousCoordinates3<%s>&);' % (S, S, S)))
    W.append(('toCartesian(Spherical<%s>)' % S, 'template romea::core::CartesianCoordinates3<%s> romea::core::toCartesian<%s>(const romea::core::SphericalCoordinates<%s>&);' % (S, S, S)))
    W.append(('toHomogeneous(Spherical<%s>)' % S, 'template romea::core::HomogeneousCoordinates3<%s> romea::core::toHomogeneous<%s>(const romea::core::SphericalCoordinates<%s>&);' % (S, S, S)))


def pre(root, R):
    R.floor('W1', 30)
    ewit.run(root, R, 'W1', WITNESSES)


def run(fx, R, tier):
    try:
        from . import C10_alg
    except ImportError:
        return
    C10_alg.run(fx, R, tier)
