"""C16 - sliding-window statistics and ring buffer.

Rules (all decided on the symbolic reading of update/append/reset/clear/operator[] - formulas, not runs)
  S1  state completeness: every field carried from one update()/append() to the next (read and written there)
      is restored by reset()/clear() to the value its constructor gives it
  S2  paired update: on every path of update() the running total changes by exactly what enters/leaves its
      container (push v  <->  +v ;  store at i  <->  +v - old[i]), replacement at the moving index, which then
      advances by one modulo the window
  S3  formulas: average*(multiplier*n) = sum ; variance = (SS/m^2 - n*mean^2)/(W-1) with n=W, using the
      constructor's definitions of the squared multiplier and of W-1; samples are truncated to the precision
  S4  widths: with precision down to 1e-6 (multiplier up to 1e6), |value|/precision <= 1e8 and W <= 64 no integer
      product/sum of the statistics exceeds the width of its type
  S5  ring/window indices: no unsigned subtraction inside a `%` dividend unless the modulus is added first; the ring
      read index is congruent to (latest - k); append advances by +1 and stores at the advanced index
  S6  availability is `window full` and the window only grows in update() and only shrinks in reset()
Not decided: rounding of the final floating-point divisions."""
import sympy as sp
from .. import sym, eint
from ..tree import pp, walk, short_fn, strip_casts

LEVEL = 'other'
UNITS = ['src/monitoring/OnlineAverage.cpp', 'src/monitoring/OnlineVariance.cpp', 'verif:inst_concurrency.cpp']
ENGINES = 'E-STATE + E-ALG + E-INT over romea-facts'
TECHNIQUE = 'ring append placed on (items held, capacity) witnesses: push while filling, overwrite when full, kind and width of the running totals and of reduction accumulators, reductions over the window read as the running total, shortcut paths of update() must still slide the window, interval evaluation of the variance numerator with the ranges of the quantifier, stored availability flag after update and reset on every fill level, sweep of every function read (and its in-repo callees) for frozen function-local statics, single precision inside double computations, lossy copy constructors, presence- or argument-keyed member caches, reference members bound to constructor arguments, loop accumulators that are members, members derived in the constructor and not refreshed by setters, results returned by reference to a member buffer, members filled from an argument under a condition that ignores it, hidden non-virtual base members, self-bound reference members, reductions that accumulate in float; symbolic reading of update/reset bodies into exact formulas (sympy), def-use state-completeness, paired-update and interval/width lints on the typed AST'
EXPLANATION = ('The bodies of update/append/reset/clear/operator[] are read into exact symbolic final-state expressions per path '
               '(no execution, loops never unrolled); rules S1 state completeness vs constructor, S2 paired total/container update, '
               'S3 average/variance formulas as polynomial identities, S4 integer widths by interval evaluation under the quantifier ranges, '
               'S5 unsigned-modulus and ring index congruence, S6 availability. Not decided: floating-point rounding of the final division.')
ASSUMPTIONS = ['quantifier ranges: precision in [1e-6,1] so multiplier in [1,1e6]; |value|/precision <= 1e8; window 1..64',
               'std::vector push_back/clear/operator[]/size semantics; ring read index k < size()']
LEVEL_TEXT = ('For every history at once: the recurrences of the online average/variance and of the ring buffer are extracted as formulas and checked '
              'against the window model (state completeness of reset, paired total/container update, index advance, formulas, integer widths, '
              'unsigned modulus). A test samples histories; these rules quantify over all of them because they constrain the step function itself.')
LEVEL_NOTE = 'Not decided: rounding of the final floating-point division. Trusted: clang front end, extractor, sympy exact arithmetic, container semantics listed in assumptions.'

STEPPERS = [
    # (class regex-free qualified name or pattern, stepper, restart)
    ('romea::core::OnlineAverage', 'update', 'reset'),
    ('romea::core::OnlineVariance', 'update', 'reset'),
]
PAIRS = {'romea::core::OnlineAverage': [('sumOfData_', 'data_', 1)],
         'romea::core::OnlineVariance': [('sumOfData_', 'data_', 1), ('sumOfSquaredData_', 'squaredData_', 2)]}


def _accumulate_hook(cq):
    """std::accumulate(c.begin(), c.end(), init) over a window container: the sum of the container AFTER the operations this call has performed on it, written as the paired running total before the
    call (the invariant total = sum of the container, which the step rule S2 re-establishes) plus what was pushed / replaced.  The width of the accumulator - the type of `init` - is judged by S4."""
    def hook(rd, e, st, ctx):
        if e.get('k') != 'Call' or not (e.get('fn') or '').startswith('std::accumulate') or len(e.get('args', [])) != 3:
            return NotImplemented
        b_, e_ = strip_casts(e['args'][0]), strip_casts(e['args'][1])
        if not (b_.get('k') == 'MCall' and b_.get('m') in ('begin', 'cbegin') and e_.get('k') == 'MCall' and e_.get('m') in ('end', 'cend')):
            return NotImplemented
        lv = rd.lvalue(b_['obj'], st, ctx)
        lv2 = rd.lvalue(e_['obj'], st, ctx)
        if not lv or lv != lv2 or lv[0] != 'field':
            return NotImplemented
        pair = next((p_ for p_ in PAIRS.get(cq, []) if ('this', p_[1]) == tuple(lv[1])), None)
        cont = st.fields.get(lv[1])
        if pair is None:
            return NotImplemented
        total = sp.Symbol('this.' + pair[0], integer=True)
        for o in (cont.ops if isinstance(cont, sym.Cont) else []):
            if o[0] == 'push':
                total = total + o[1]
            elif o[0] == 'store':
                total = total + o[2] - sp.Function('elem')(sp.Symbol('this.' + pair[1]), o[1])
            else:
                return NotImplemented
        out = []
        for (iv, s2) in rd.ev(e['args'][2], st, ctx):
            out.append((total + iv if isinstance(iv, sp.Basic) else total, s2))
        return out
    return hook


def _eq(a, b):
    if isinstance(a, sym.Cont) or isinstance(b, sym.Cont):
        if isinstance(a, sym.Cont) and isinstance(b, sym.Cont):
            return _empty(a) and _empty(b) or a == b
        return False
    if isinstance(a, sp.Basic) and isinstance(b, sp.Basic):
        if a is sp.nan and b is sp.nan:
            return True
        try:
            return sp.simplify(a - b) == 0
        except Exception:
            return None
    return None


def _empty(c):
    return bool(c.ops) and c.ops[-1][0] == 'clear'


def ctor_state(fx, cq, R):
    """Field values established by the principal constructor (the non-copy, non-delegating one with most parameters),
    base-class constructors included."""
    cands = [f for f in fx.functions.values() if f.get('ctor') and f.get('cls') == cq and not f.get('copyctor')
             and not any(i.get('delegating') for i in f.get('inits', []))]
    if not cands:
        return None, None
    ctor = max(cands, key=lambda f: len(f['params']))
    rd = sym.Reader(fx, call_hook=_ctor_hook)
    states = [sym.State()]
    out_states = []
    for st in states:
        # base initialisers first
        cur = [st]
        for i in ctor.get('inits', []):
            if i.get('base'):
                bq = i['base']
                e = i['e']
                if e.get('k') == 'Construct' and e.get('fk') in fx.functions:
                    bctor = fx.functions[e['fk']]
                    nxt = []
                    for s in cur:
                        ctx = {'this': ('this',), 'fn': ctor, 'depth': 0}
                        s.locals = {p['id']: rd.symbol('arg:' + p['name'], p['t']) for p in ctor['params']}
                        for (vals, s2) in rd.evs(e.get('args', []), s, ctx):
                            nxt += rd.run(bctor, vals, ('this',), s2, 1)
                    cur = nxt
                    R.used(bctor)
        for s in cur:
            s.locals = {}
            out_states += rd.run(ctor, None, ('this',), s)
    R.used(ctor)
    return ctor, out_states


def _ctor_hook(rd, e, st, ctx):
    if e.get('k') == 'Construct' and e['t']['s'].startswith(sym.CONTAINER_TYPES) and not e.get('args'):
        return [(sym.Cont('fresh').with_op('clear'), st)]
    return NotImplemented


def carried_fields(rd, states):
    """Fields that the stepping function both reads (their old value occurs in a final value / condition or the container
    is operated on) and writes."""
    written = set()
    for st in states:
        for p, v in st.fields.items():
            init = sp.Symbol('.'.join(p))
            if isinstance(v, sym.Cont):
                if v.ops:
                    written.add(p)
            elif isinstance(v, sp.Basic) and v != init and not (v.is_Symbol and v.name == init.name):
                written.add(p)
    return sorted(p for p in written if p in rd.read_fields)


def run(fx, R, tier):
    R.floor('S1', 6)
    R.floor('S2', 6)
    R.floor('S3', 3)
    R.floor('S5', 4)
    for (cq, stepper, restart) in STEPPERS:
        check_stepper(fx, R, cq, stepper, restart)
    rings = sorted(q for q in fx.records if q.startswith('romea::core::RingOfEigenVector<'))
    if not rings:
        R.undecided('S1', 'RingOfEigenVector', 'no instantiation of RingOfEigenVector found')
    for rq in rings:
        check_ring(fx, R, rq)
    check_widths(fx, R)
    check_availability(fx, R)


# ---------------------------------------------------------------------------------------------
def method(fx, cq, name):
    """Body of cq::name, or of the nearest base class that defines it."""
    seen = set()
    q = cq
    while q and q not in seen:
        seen.add(q)
        l = [f for f in fx.fn(q + '::' + name) if f.get('body') is not None]
        if l:
            return l[0]
        rec = fx.records.get(q)
        q = rec['bases'][0] if rec and rec.get('bases') else None
    return None


def check_stepper(fx, R, cq, stepper, restart):
    cname = short_fn(cq)
    fstep, frest = method(fx, cq, stepper), method(fx, cq, restart)
    if fstep is None or frest is None:
        R.undecided('S1', cname, 'anchor vanished: %s or %s has no body' % (stepper, restart))
        return
    R.used(fstep, frest)
    try:
        rd = sym.Reader(fx, call_hook=_accumulate_hook(cq))
        steps = rd.run(fstep)
        rr = sym.Reader(fx)
        rests = rr.run(frest)
        ctor, cstates = ctor_state(fx, cq, R)
    except sym.Unsupported as u:
        R.undecided('S1', cname, 'symbolic reader: %s' % u)
        return
    if not cstates or len(cstates) != 1:
        R.undecided('S1', cname, 'constructor not readable as one straight-line initialisation')
        return
    cst = cstates[0]
    # ---- S1 ----------------------------------------------------------
    carried = carried_fields(rd, steps)
    if not carried:
        R.undecided('S1', cname, 'no carried state found in %s' % stepper)
    for p in carried:
        fname = '.'.join(p[1:])
        inst = '%s::%s:%s' % (cname, restart, fname)
        cval = cst.fields.get(p)
        if cval is None:
            R.undecided('S1', inst, 'constructor does not initialise %s' % fname)
            continue
        bad = None
        for st in rests:
            v = st.fields.get(p)
            init = sp.Symbol('.'.join(p))
            untouched = v is None or (isinstance(v, sp.Basic) and v == init) or (isinstance(v, sym.Cont) and not v.ops)
            if untouched:
                bad = ('VIOLATED', '%s() carries %s from one call to the next (reads and writes it) but %s() does not re-initialise it (constructor value: %s)' % (stepper, fname, restart, cval))
                break
            eq = _eq(v, cval)
            if eq is None:
                bad = ('UNDECIDED', 'cannot compare %s() value %s with constructor value %s' % (restart, v, cval))
            elif not eq:
                bad = ('VIOLATED', '%s() sets %s to %s but the constructor starts it at %s' % (restart, fname, v, cval))
                break
        if bad is None:
            R.holds('S1', inst, 'restored to constructor value %s on every path' % (cval,), frest['loc'] and fx.rel(frest['loc']), 'E-STATE')
        elif bad[0] == 'VIOLATED':
            R.violated('S1', inst, bad[1], fx.rel(frest['loc']), 'E-STATE')
        else:
            R.undecided('S1', inst, bad[1])
    # ---- S2 ----------------------------------------------------------
    W = sp.Symbol('this.windowSize_', integer=True)
    I = sp.Symbol('this.index_', integer=True)
    if len(steps) > 2:
        # shortcut paths: paths that touch no container.  Each must leave the object in the state the replace path would (the window slides by one on EVERY update): decided for the shortcut conditions that
        # are readable - `window full` and `an element equals the incoming sample` - anything else is undecided
        touching = [s for s in steps if any(isinstance(v, sym.Cont) and v.ops for v in s.fields.values())]
        short = [s for s in steps if s not in touching]
        if len(touching) == 2 and short:
            size0_ = sp.Symbol('size(this.data_)', integer=True, nonnegative=True)
            for s_ in short:
                desc = ' && '.join(('' if c[2] else '!') + '(' + c[0] + ')' for c in s_.cond)
                readable = True
                full_window = False
                for c in s_.cond:
                    rel = c[1] if c[2] else (sp.Not(c[1]) if isinstance(c[1], sp.Basic) else None)
                    if rel in (sp.Eq(size0_, W), sp.Eq(W, size0_)):
                        full_window = True
                    elif isinstance(rel, sp.Equality) and any(t.func == sp.Function('elem') for t in rel.atoms(sp.Function)):
                        pass
                    elif isinstance(rel, (sp.And,)) and all(isinstance(a_, sp.Equality) for a_ in rel.args):
                        full_window = full_window or any(a_ in (sp.Eq(size0_, W), sp.Eq(W, size0_)) for a_ in rel.args)
                    else:
                        readable = False
                iv = s_.fields.get(('this', 'index_'))
                advanced = isinstance(iv, sp.Basic) and iv == sp.Mod(I + 1, W)
                if advanced:
                    R.holds('S2', '%s::%s:shortcut[%s]' % (cname, stepper, desc), 'the shortcut path advances index_ like the replace path', fx.rel(fstep['loc']), 'E-STATE')
                elif readable and full_window:
                    R.violated('S2', '%s::%s:shortcut-skips-index' % (cname, stepper), 'on the path [%s] (window full, incoming sample equal to a stored one) %s() returns without advancing index_ (%s): the window must slide '
                               'by one on every update - the NEXT, different sample then overwrites the slot of this sample instead of the oldest one, and the object no longer holds the last W samples' % (
                                   desc, stepper, 'left as it was' if iv is None or iv == I else iv), fx.rel(fstep['loc']), 'E-STATE')
                else:
                    R.undecided('S2', '%s::%s:shortcut[%s]' % (cname, stepper, desc), 'a path of %s() touches no container and its condition is not one of the readable shortcut conditions' % stepper)
            steps = touching
    if len(steps) != 2:
        R.undecided('S2', cname, '%s() has %d paths, expected the fill path and the replace path' % (stepper, len(steps)))
        return
    fill = [s for s in steps if any(isinstance(v, sym.Cont) and any(o[0] == 'push' for o in v.ops) for v in s.fields.values())]
    repl = [s for s in steps if s not in fill]
    if len(fill) != 1 or len(repl) != 1:
        R.undecided('S2', cname, 'cannot identify one fill path and one replace path in %s()' % stepper)
        return
    fill, repl = fill[0], repl[0]
    # guard: fill iff size != window
    c = fill.cond[-1] if fill.cond else None
    size0 = sp.Symbol('size(this.data_)', integer=True, nonnegative=True)
    guard_ok = False
    if c is not None and isinstance(c[1], sp.Basic):
        rel = c[1] if c[2] else sp.Not(c[1])
        guard_ok = rel in (sp.Ne(size0, W), sp.Ne(W, size0), sp.Lt(size0, W), sp.Gt(W, size0))
    R.check(guard_ok, 'S2', '%s::%s:guard' % (cname, stepper),
            'the fill/replace decision is not `window not yet full` (data_.size() != windowSize_): %s' % (c[0] if c else None),
            'fill path taken iff size(data_) != windowSize_', fx.rel(fstep['loc']), 'E-STATE')
    xs = {}
    for (sumf, contf, power) in PAIRS[cq]:
        sp_, cp_ = ('this', sumf), ('this', contf)
        S0 = sp.Symbol('this.' + sumf, integer=True)
        inst = '%s::%s:%s/%s' % (cname, stepper, sumf, contf)
        cf, cr = fill.fields.get(cp_), repl.fields.get(cp_)
        sf, sr = fill.fields.get(sp_), repl.fields.get(sp_)
        # the reader names the entry value of the total after its declared type: use its symbol, whatever its assumptions
        for v_ in (sf, sr):
            for y_ in (v_.free_symbols if isinstance(v_, sp.Basic) else ()):
                if y_.name == 'this.' + sumf:
                    S0 = y_
        # S4 (width / kind of the running totals): the statement is about exact integer sums with no accumulated drift
        rec_ = fx.records.get(cq) or {}
        for q_ in [cq] + list(rec_.get('bases') or []):
            fl_ = next((f_ for f_ in (fx.records.get(q_) or {}).get('fields', []) if f_['name'] == sumf), None)
            if fl_ is not None:
                t_ = fl_.get('t') or {}
                if t_.get('c') == 'fp':
                    R.violated('S4', '%s:%s:floating-total' % (cname, sumf), 'the running total %s is a %s: once it passes 2^53 (|value|/precision up to 1e8, squares up to 1e16) every add / subtract of update() is rounded, '
                               'and the residue of "large + small - large" never cancels - it stays in the total until reset(), so after large samples have left the window the statistics of the small ones are wrong '
                               '(the statement: exactly the last W samples, no accumulated drift)' % (sumf, t_.get('s')), fx.rel(fstep['loc']), 'E-INT')
                elif t_.get('c') == 'int' and (t_.get('bits') or 0) < 64:
                    R.violated('S4', '%s:%s:narrow-total' % (cname, sumf), 'the running total %s is a %s (%s bits): W * 1e8%s exceeds it' % (sumf, t_.get('s'), t_.get('bits'), '^2' if power == 2 else ''), fx.rel(fstep['loc']), 'E-INT')
                else:
                    R.holds('S4', '%s:%s:integer-total' % (cname, sumf), '%s' % t_.get('s'), fx.rel(fstep['loc']), 'E-INT')
                break
        if not isinstance(cf, sym.Cont) or not isinstance(cr, sym.Cont) or sf is None or sr is None:
            R.undecided('S2', inst, 'total or container not found in the final state')
            continue
        ok = True
        why = ''
        if [o[0] for o in cf.ops] != ['push']:
            ok, why = False, 'fill path does not perform exactly one push_back on %s: %s' % (contf, cf.ops)
        else:
            x = cf.ops[0][1]
            xs[power] = x
            if sp.simplify(sf - S0 - x) != 0:
                ok, why = False, 'fill path: %s changes by %s but %s receives %s' % (sumf, sp.simplify(sf - S0), contf, x)
        if ok:
            if [o[0] for o in cr.ops] != ['store']:
                ok, why = False, 'replace path does not perform exactly one element store on %s: %s' % (contf, cr.ops)
            else:
                idx, xr = cr.ops[0][1], cr.ops[0][2]
                old = sp.Function('elem')(sp.Symbol('this.' + contf), idx)
                if sp.simplify(idx - I) != 0:
                    ok, why = False, 'replace path stores at index %s, not at the moving index' % idx
                elif sp.simplify(xr - x) != 0:
                    ok, why = False, 'replace path stores %s but the fill path pushes %s' % (xr, x)
                elif sp.simplify(sr - S0 - xr + old) != 0:
                    ok, why = False, 'replace path: %s changes by %s, expected +new - old element (%s)' % (sumf, sp.simplify(sr - S0), xr - old)
        R.check(ok, 'S2', inst, why, 'push v <-> +v ; store at index_ <-> +v - old[index_]', fx.rel(fstep['loc']), 'E-STATE')
    for (nm, st) in (('fill', fill), ('replace', repl)):
        v = st.fields.get(('this', 'index_'))
        good = isinstance(v, sp.Basic) and v == sp.Mod(I + 1, W)
        R.check(good, 'S2', '%s::%s:index_/%s' % (cname, stepper, nm),
                'index_ does not advance by one modulo the window on the %s path: %s' % (nm, v), 'index_ <- (index_+1) mod windowSize_', fx.rel(fstep['loc']), 'E-STATE')
    if 1 in xs and 2 in xs:
        R.check(sp.simplify(xs[2] - xs[1] ** 2) == 0, 'S2', '%s::%s:square' % (cname, stepper),
                'the value entering the squared window (%s) is not the square of the value entering the window (%s)' % (xs[2], xs[1]),
                'squared sample = sample^2', fx.rel(fstep['loc']), 'E-STATE')
    # ---- S3 ----------------------------------------------------------
    m = sp.Symbol('this.multiplier_', integer=True)
    if 1 in xs:
        val = sp.Symbol('arg:value', real=True)
        R.check(xs[1] == sp.Function('trunc')(val * m), 'S3', '%s::%s:truncation' % (cname, stepper),
                'sample is not truncated to the precision as trunc(value*multiplier): %s' % xs[1], 'sample = trunc(value*multiplier_)',
                fx.rel(fstep['loc']), 'E-ALG')
    mc = cst.fields.get(('this', 'multiplier_'))
    prec = sp.Symbol('arg:averagePrecision', real=True)
    R.check(mc is not None and mc == sp.Function('trunc')(1 / prec), 'S3', '%s:multiplier' % cname,
            'multiplier_ is not trunc(1/precision): %s' % mc, 'multiplier_ = trunc(1/precision)', fx.rel(ctor['loc']), 'E-ALG')
    for (nm, st) in (('fill', fill), ('replace', repl)):
        n = st.fields[('this', 'data_')].size()
        S = st.fields.get(('this', 'sumOfData_'))
        avg = st.fields.get(('this', 'average_'))
        if avg is None or S is None:
            R.undecided('S3', '%s::%s:average/%s' % (cname, stepper, nm), 'average_ not assigned')
            continue
        res = sp.simplify(avg * m * n - S)
        R.check(res == 0, 'S3', '%s::%s:average/%s' % (cname, stepper, nm),
                'average_*(multiplier_*n) - sum = %s (should be 0)' % res, 'average_*(multiplier_*n) = sumOfData_', fx.rel(fstep['loc']), 'E-ALG')
        if cq.endswith('OnlineVariance'):
            var = st.fields.get(('this', 'variance_'))
            SS = st.fields.get(('this', 'sumOfSquaredData_'))
            m2c = cst.fields.get(('this', 'squaredMultiplier_'))
            wm1c = cst.fields.get(('this', 'windowSizeMinusOne_'))
            wc = cst.fields.get(('this', 'windowSize_'))
            if None in (var, SS, m2c, wm1c, wc, mc):
                R.undecided('S3', '%s::%s:variance/%s' % (cname, stepper, nm), 'variance inputs not found')
                continue
            # constructor definitions: squaredMultiplier_ = multiplier_^2, windowSizeMinusOne_ = windowSize_ - 1
            defs_ok = sp.simplify(m2c - mc ** 2) == 0 and sp.simplify(wm1c - (wc - 1)) == 0
            R.check(defs_ok, 'S3', '%s:ctor-definitions' % cname,
                    'constructor does not define squaredMultiplier_=multiplier_^2 and windowSizeMinusOne_=windowSize_-1: %s, %s' % (m2c, wm1c),
                    'squaredMultiplier_ = multiplier_^2 ; windowSizeMinusOne_ = windowSize_ - 1', fx.rel(ctor['loc']), 'E-ALG')
            sub = {sp.Symbol('this.squaredMultiplier_', integer=True): m ** 2,
                   sp.Symbol('this.windowSizeMinusOne_', integer=True): W - 1}
            var_s = var.subs(sub)
            # window full: n = W
            n_sym = sp.Symbol('size(this.data_)', integer=True, nonnegative=True)
            full = sp.solve(sp.Eq(n, W), n_sym)
            var_s, S_s, SS_s = [x.subs(n_sym, full[0]) for x in (var_s, S, SS)]
            target = (SS_s / m ** 2 - W * (S_s / (m * W)) ** 2) / (W - 1)
            res = sp.simplify(var_s - target)
            R.check(res == 0, 'S3', '%s::%s:variance/%s' % (cname, stepper, nm),
                    'variance_ differs from the unbiased sample variance of the full window by %s' % res,
                    'variance_ = (SS/m^2 - W*mean^2)/(W-1) when the window is full', fx.rel(fstep['loc']), 'E-ALG')
    # setWindowSize keeps W-1 in step (configuration, but the formula above depends on it)
    if cq.endswith('OnlineVariance'):
        fset = method(fx, cq, 'setWindowSize')
        if fset is not None:
            R.used(fset)
            try:
                sts = sym.Reader(fx).run(fset)
                good = all(sp.simplify(s.fields.get(('this', 'windowSizeMinusOne_'), sp.nan) - (s.fields.get(('this', 'windowSize_'), sp.nan) - 1)) == 0 for s in sts)
                R.check(good, 'S3', '%s::setWindowSize' % cname, 'setWindowSize does not keep windowSizeMinusOne_ = windowSize_ - 1',
                        'windowSizeMinusOne_ = windowSize_ - 1', fx.rel(fset['loc']), 'E-ALG')
            except sym.Unsupported as u:
                R.undecided('S3', '%s::setWindowSize' % cname, str(u))


# ---------------------------------------------------------------------------------------------
def check_ring(fx, R, rq):
    cname = short_fn(rq)
    fa, fc, fi = method(fx, rq, 'append'), method(fx, rq, 'clear'), method(fx, rq, 'operator[]')
    if None in (fa, fc, fi):
        R.undecided('S1', cname, 'anchor vanished: append/clear/operator[]')
        return
    R.used(fa, fc, fi)

    def hook(rd, e, st, ctx):
        # VectorOfEigenVector is std::vector with an aligned allocator: same container abstraction
        return NotImplemented
    try:
        rd = sym.Reader(fx)
        steps = rd.run(fa)
        clears = sym.Reader(fx).run(fc)
        reads = sym.Reader(fx).run(fi)
        ctor, cstates = ctor_state(fx, rq, R)
    except sym.Unsupported as u:
        R.undecided('S1', cname, 'symbolic reader: %s' % u)
        return
    if not cstates or len(cstates) != 1:
        R.undecided('S1', cname, 'constructor not readable')
        return
    cst = cstates[0]
    carried = carried_fields(rd, steps)
    for p in carried:
        fname = '.'.join(p[1:])
        inst = '%s::clear:%s' % (short_fn(rq.split('<')[0]), fname)
        cval = cst.fields.get(p)
        verdict = None
        for st in clears:
            v = st.fields.get(p)
            init = sp.Symbol('.'.join(p))
            if v is None or (isinstance(v, sp.Basic) and v == init) or (isinstance(v, sym.Cont) and not v.ops):
                verdict = 'append() carries %s from one call to the next but clear() does not re-initialise it (constructor value: %s)' % (fname, cval)
                break
            eq = _eq(v, cval) if cval is not None else None
            if eq is False:
                verdict = 'clear() sets %s to %s but the constructor starts it at %s' % (fname, v, cval)
                break
            if eq is None:
                verdict = None
                R.undecided('S1', inst, 'cannot compare %s with constructor value %s' % (v, cval))
                break
        else:
            R.holds('S1', inst, 'restored to constructor value %s [%s]' % (cval, cname), fx.rel(fc['loc']), 'E-STATE')
            continue
        if verdict:
            R.violated('S1', inst, verdict + ' [%s]' % cname, fx.rel(fc['loc']), 'E-STATE')
    # ---- S5: index algebra --------------------------------------------
    base = short_fn(rq.split('<')[0])
    for f in (fa, fi):
        finds, n = eint.modulus_findings(f['body'])
        for (node, kind, off) in finds:
            R.violated('S5', '%s::%s:%s' % (base, f['name'], kind),
                       'unsigned `%s`: the term -(%s) can wrap below zero before the modulus is taken (wrong for every capacity that does not divide 2^64) [%s]' % (
                           pp(node), pp(off), cname), fx.rel(node['loc']), 'E-INT')
        if n and not finds:
            R.holds('S5', '%s::%s:modulus' % (base, f['name']), '%d `%%` node(s), no uncompensated unsigned subtraction [%s]' % (n, cname), fx.rel(f['loc']), 'E-INT')
    RI = sp.Symbol('this.ringIndex_', integer=True)
    cap = sp.Symbol('this.ringSize_', integer=True)
    # append: index advances by +1 mod capacity on every path; a store goes to the advanced index
    ok, why = True, ''
    for st in steps:
        v = st.fields.get(('this', 'ringIndex_'))
        if not (isinstance(v, sp.Basic) and v == sp.Mod(RI + 1, cap)):
            ok, why = False, 'ringIndex_ becomes %s, expected (ringIndex_+1) mod ringSize_' % v
        c = st.fields.get(('this', 'ring_'))
        if isinstance(c, sym.Cont):
            for o in c.ops:
                if o[0] == 'store' and sp.simplify(o[1] - sp.Mod(RI + 1, cap)) != 0:
                    ok, why = False, 'append stores at %s, not at the advanced index' % o[1]
            if len([o for o in c.ops if o[0] in ('store', 'push')]) != 1:
                ok, why = False, 'append performs %s, expected exactly one push_back or one element store' % (c.ops,)
    R.check(ok, 'S5', '%s::append:advance' % base, why + ' [%s]' % cname, 'ringIndex_ <- (ringIndex_+1) mod ringSize_; store at the new index [%s]' % cname, fx.rel(fa['loc']), 'E-STATE')
    # append: WHICH of the two it does.  While the buffer holds fewer items than its capacity the item must be pushed (the element does not exist yet); once it is full it must overwrite, never grow.
    # Every path of append() is placed, by its own conditions, on witness (items held, capacity) pairs
    sizeS = [y_ for st in steps for c_ in st.cond if isinstance(c_[1], sp.Basic) for y_ in c_[1].free_symbols if y_.name == 'size(this.ring_)']
    badg = undg = None
    n_g = 0
    for (held, capv) in ((0, 4), (2, 4), (3, 4), (4, 4), (0, 1), (1, 1), (5, 7), (7, 7)):
        taken = []
        for st in steps:
            feas = True
            for c_ in st.cond:
                if c_[0] in ('True', 'False') or not isinstance(c_[1], sp.Basic):
                    continue
                v_ = c_[1].subs({y_: (held if y_.name == 'size(this.ring_)' else capv if y_.name == 'this.ringSize_' else (held - 1) % capv if y_.name == 'this.ringIndex_' else y_) for y_ in c_[1].free_symbols})
                v_ = sp.simplify(v_)
                if v_ not in (sp.true, sp.false):
                    feas = None
                    break
                if bool(v_) != c_[2]:
                    feas = False
                    break
            if feas is None:
                undg = undg or 'a path condition of append() is not decided by (items held, capacity): %s' % [c_[0] for c_ in st.cond]
            elif feas:
                taken.append(st)
        if undg:
            break
        if len(taken) != 1:
            undg = '%d paths of append() are taken with %d items held of capacity %d' % (len(taken), held, capv)
            break
        c = taken[0].fields.get(('this', 'ring_'))
        ops_ = [o[0] for o in c.ops if o[0] in ('store', 'push')] if isinstance(c, sym.Cont) else []
        want_op = 'push' if held < capv else 'store'
        n_g += 1
        if ops_ != [want_op]:
            badg = badg or (held, capv, ops_, want_op)
    if badg:
        R.violated('S5', '%s::append:grow-or-overwrite' % base, 'with %d item(s) held in a ring of capacity %d append() performs %s; it must %s: %s [%s]' % (
            badg[0], badg[1], badg[2] or 'no store', 'push the item (the element at the advanced index does not exist yet)' if badg[3] == 'push' else 'overwrite the oldest element, not grow',
            'an element store beyond the end of the vector is undefined behaviour; the ring never holds min(n, W) items' if badg[3] == 'push' else 'the ring would hold more than W items and the k-th entry is no longer the '
            'k-th most recent', cname), fx.rel(fa['loc']), 'E-STEP')
    elif undg:
        R.undecided('S5', '%s::append:grow-or-overwrite' % base, undg)
    else:
        R.holds('S5', '%s::append:grow-or-overwrite' % base, 'pushes while fewer than W items are held and overwrites once full, on %d (held, capacity) witnesses [%s]' % (n_g, cname), fx.rel(fa['loc']), 'E-STEP')
    # operator[](n): index congruent to ringIndex_ - n modulo the size
    ok, why = (len(reads) == 1), 'operator[] has %d paths' % len(reads)
    if ok:
        r = reads[0].ret
        n = sp.Symbol('arg:n', integer=True)
        size = sp.Symbol('size(this.ring_)', integer=True, nonnegative=True)
        if isinstance(r, sp.Basic) and r.func == sp.Function('elem') and isinstance(r.args[1], sp.Mod):
            dividend, modulus = r.args[1].args
            k = sp.simplify((dividend - (RI - n)) / modulus)
            if modulus != size:
                ok, why = False, 'modulus is %s, not the current size' % modulus
            elif not (k.is_Integer and k >= 0):
                ok, why = False, 'read index %s is not congruent to ringIndex_ - n modulo the size' % r.args[1]
        else:
            ok, why = False, 'operator[] does not return ring_[(...) %% size]: %s' % r
    R.check(ok, 'S5', '%s::operator[]:congruence' % base, why + ' [%s]' % cname, 'k-th entry read at (ringIndex_ - k) mod size [%s]' % cname, fx.rel(fi['loc']), 'E-ALG')


# ---------------------------------------------------------------------------------------------
RANGES = {'multiplier_': (1, 10 ** 6), 'integerValue': (-10 ** 8, 10 ** 8), 'squaredIntegerValue': (0, 10 ** 16),
          'windowSize_': (1, 64), 'windowSize': (1, 64), 'index_': (0, 63),
          # quantifier: |value| / precision <= 1e8, windows of at most 64 samples
          'sumOfData_': (-64 * 10 ** 8, 64 * 10 ** 8), 'sumOfSquaredData_': (0, 64 * 10 ** 16), 'windowSizeMinusOne_': (0, 63), 'squaredMultiplier_': (1, 10 ** 12)}
LOCAL_INITS = {}       # id of an integer local -> its initialiser (filled per function; single-assignment locals only)


def _ranges(e):
    e0 = strip_casts(e)
    if e0 is None:
        return None
    if e0['k'] == 'Member' and e0['name'] in RANGES:
        return RANGES[e0['name']]
    if e0['k'] == 'Ref' and e0['name'] in RANGES:
        return RANGES[e0['name']]
    if e0['k'] == 'MCall' and e0.get('m') == 'size' and not e0.get('args') and strip_casts(e0['obj']).get('k') == 'Member' and strip_casts(e0['obj']).get('name') == 'data_':
        return (0, 64)
    if e0['k'] in ('Op', 'Index') and e0.get('op') in ('[]', None) and e0.get('args') and strip_casts(e0['args'][0]).get('k') == 'Member' and strip_casts(e0['args'][0]).get('name') == 'data_':
        return (-10 ** 8, 10 ** 8)
    if e0['k'] == 'Ref' and e0.get('id') in LOCAL_INITS:
        init = LOCAL_INITS[e0['id']]
        LOCAL_INITS.pop(e0['id'])                    # no recursion through itself
        try:
            return eint.interval(init, _ranges, [])
        finally:
            LOCAL_INITS[e0['id']] = init
    return None


def check_widths(fx, R):
    """S4: integer products / narrowing initialisations of the statistics under the quantifier's ranges."""
    targets = []
    for q in ('romea::core::OnlineAverage::update', 'romea::core::OnlineVariance::update'):
        f = fx.one(q)
        if f is None:
            R.undecided('S4', short_fn(q), 'anchor vanished')
            continue
        targets.append(f)
    ctors = [f for f in fx.functions.values() if f.get('ctor') and f.get('cls') in ('romea::core::OnlineAverage', 'romea::core::OnlineVariance') and not f.get('copyctor')]
    n_nodes = 0
    for f in targets + ctors:
        R.used(f)
        LOCAL_INITS.clear()
        assigned = {}
        for x in walk(f.get('body')):
            if x.get('k') == 'Bin' and x.get('op') in ('=', '+=', '-=', '*=', '/=') and strip_casts(x['l']).get('k') == 'Ref':
                assigned[strip_casts(x['l'])['id']] = True
            if x.get('k') == 'Un' and x.get('op') in ('++', '--') and strip_casts(x['e']).get('k') == 'Ref':
                assigned[strip_casts(x['e'])['id']] = True
        for x in walk(f.get('body')):
            if x.get('k') == 'Decl':
                for v in x['vars']:
                    if v.get('init') is not None and v['t'].get('c') == 'int' and v['id'] not in assigned:
                        LOCAL_INITS[v['id']] = v['init']
        # a reduction over the window (std::accumulate / std::reduce / inner_product): the accumulator has the type of the INITIAL VALUE argument, whatever the element type is
        for x in walk(f.get('body')):
            if x.get('k') == 'Call' and (x.get('fn') or '').split('<')[0] in ('std::accumulate', 'std::reduce', 'std::inner_product') and x.get('args'):
                init_ = x['args'][2] if len(x['args']) >= 3 and 'inner_product' not in x['fn'] else x['args'][-1]
                ti = strip_casts(init_).get('t') or {}
                inst = '%s:%s' % (short_fn(f['q']), pp(x)[:70])
                n_nodes += 1
                if ti.get('c') == 'int' and (ti.get('bits') or 64) < 64:
                    lo_hi = 64 * 10 ** 8
                    R.violated('S4', '%s:accumulator-width' % short_fn(f['q']), 'the window is summed by `%s`; the accumulator of that reduction has the type of its initial value, %s (%d bits), not the 64-bit type of the '
                               'samples: with |value|/precision up to 1e8 and windows up to 64 samples the sum reaches %d, beyond %d - the running total wraps and the average is wrong from 22 same-sign samples of '
                               'top magnitude on' % (pp(x)[:80], ti.get('s'), ti.get('bits'), lo_hi, 2 ** (ti['bits'] - 1) - 1), fx.rel(x['loc']), 'E-INT')
                elif ti.get('c') == 'fp':
                    R.violated('S4', '%s:accumulator-width' % short_fn(f['q']), 'the window is summed by `%s` into a floating accumulator (%s): the statement asks for integer sums with no accumulated drift' % (
                        pp(x)[:80], ti.get('s')), fx.rel(x['loc']), 'E-INT')
                else:
                    R.holds('S4', inst, 'accumulator type %s holds 64 * 1e8 (and its square sums are judged where they are formed)' % ti.get('s'), fx.rel(x['loc']), 'E-INT')
        nodes = []
        for x in walk(f.get('body')):
            if x.get('k') == 'Bin' and x['op'] in ('*', '+', '-') and x['t'].get('c') == 'int':
                nodes.append(x)
        for i in f.get('inits', []):
            if i.get('e') is not None and i.get('field'):
                nodes.append(('init', i))
        for x in nodes:
            findings = []
            if isinstance(x, tuple):
                i = x[1]
                rec = fx.records.get(f['cls'])
                fld = next((fl for fl in rec['fields'] if fl['name'] == i['field']), None) if rec else None
                rng = eint.interval(i['e'], _ranges, findings)
                inst = '%s:%s' % (short_fn(f['cls']), i['field'])
                if rng is not None and fld is not None:
                    n_nodes += 1
                    tr = eint.type_range(fld['t'])
                    if tr and (rng[0] < tr[0] or rng[1] > tr[1]):
                        R.violated('S4', inst, 'field %s (%s) is initialised with a value in [%s, %s] under the quantifier ranges, beyond its type range' % (
                            i['field'], fld['t']['s'], rng[0], rng[1]), fx.rel(i['e']['loc']), 'E-INT')
                        continue
                for o in findings:
                    R.violated('S4', inst, 'integer expression `%s` has type %s but ranges over [%s, %s] (precision down to 1e-6 gives multiplier up to 1e6)' % (
                        pp(o.node), o.node['t']['s'], o.rng[0], o.rng[1]), fx.rel(o.node['loc']), 'E-INT')
                if rng is not None and not findings:
                    R.holds('S4', inst, 'initialiser range [%s, %s] fits' % rng, fx.rel(i['e']['loc']), 'E-INT')
            else:
                rng = eint.interval(x, _ranges, findings)
                if rng is None:
                    if x['op'] == '*' and (x['t'].get('bits') or 0) >= 32:
                        R.undecided('S4', '%s:%s' % (short_fn(f['q']), pp(x)[:80]), 'integer product whose operand ranges are not known to this rule: overflow not decided')
                    continue
                n_nodes += 1
                inst = '%s:%s' % (short_fn(f['q']), pp(x))
                if findings:
                    o = findings[0]
                    R.violated('S4', inst, 'integer expression `%s` has type %s but ranges over [%s, %s]' % (pp(o.node), o.node['t']['s'], o.rng[0], o.rng[1]),
                               fx.rel(x['loc']), 'E-INT')
                else:
                    R.holds('S4', inst, 'range [%s, %s] fits %s' % (rng[0], rng[1], x['t']['s']), fx.rel(x['loc']), 'E-INT')
    R.floor('S4', 3)


def check_availability(fx, R):
    for cq in ('romea::core::OnlineAverage', 'romea::core::OnlineVariance'):
        f = method(fx, cq, 'isAvailable')
        if f is None:
            R.undecided('S6', short_fn(cq), 'isAvailable vanished')
            continue
        R.used(f)
        try:
            sts = sym.Reader(fx).run(f)
        except sym.Unsupported as u:
            R.undecided('S6', short_fn(cq), str(u))
            continue
        size0 = sp.Symbol('size(this.data_)', integer=True, nonnegative=True)
        W = sp.Symbol('this.windowSize_', integer=True)
        good = len(sts) == 1 and sts[0].ret in (sp.Eq(size0, W), sp.Eq(W, size0))
        flag = sts[0].ret if len(sts) == 1 and isinstance(sts[0].ret, sp.Symbol) and sts[0].ret.name.startswith('this.') else None
        if good:
            R.holds('S6', '%s::isAvailable' % short_fn(cq), 'available iff window full', fx.rel(f['loc']), 'E-STATE')
        elif flag is not None:
            # availability is a stored flag: after every update() and reset() the flag must say whether the window is full THEN
            fname = flag.name.split('.', 1)[1]
            verdict = None
            for mname in ('update', 'reset'):
                g = method(fx, cq, mname)
                if g is None:
                    continue
                try:
                    ps = sym.Reader(fx).run(g)
                except sym.Unsupported as u:
                    verdict = ('undecided', '%s not interpretable: %s' % (mname, u))
                    break
                for st in ps:
                    fv = st.fields.get(('this',) + tuple(fname.split('.')))
                    if fv is None:
                        fv = next((v_ for k_, v_ in st.fields.items() if k_[:2] == ('this', fname.split('.')[0])), None)
                    dq = st.fields.get(('this', 'data_'))
                    size1 = dq.size() if isinstance(dq, sym.Cont) else size0
                    desc = ' && '.join(('' if c[2] else '!') + '(' + c[0] + ')' for c in st.cond)
                    if fv is None or (isinstance(fv, sp.Symbol) and fv == flag):
                        verdict = verdict or ('violated', '%s()%s leaves the flag `%s` untouched although the number of samples in the window changes' % (mname, ' on the path [%s]' % desc if desc else '', fname)) \
                            if size1 != size0 else verdict
                        continue
                    if not isinstance(fv, sp.Basic):
                        verdict = verdict or ('undecided', 'value stored in %s by %s() not readable' % (fname, mname))
                        continue
                    for Wv in (1, 2, 5):
                        for s0 in range(0, Wv + 1):
                            env = {size0: s0, W: Wv}
                            feas = True
                            for c in st.cond:
                                if isinstance(c[1], sp.Basic):
                                    cv_ = c[1].subs(env)
                                    if cv_ in (sp.true, sp.false) and bool(cv_) != c[2]:
                                        feas = False
                            if not feas:
                                continue
                            try:
                                got = fv.subs(env)
                                want = sp.simplify(size1.subs(env)) == Wv
                            except Exception:
                                continue
                            if got in (sp.true, sp.false, 0, 1) and bool(got) != bool(want) and verdict is None:
                                verdict = ('violated', 'after %s() on a window of W = %d that held %d sample(s) the window holds %s, so availability is %s, but the stored flag `%s` is %s (it is computed from '
                                           'the size BEFORE the sample is pushed): isAvailable() is one sample late exactly when the W-th sample arrives' % (
                                               mname, Wv, s0, sp.simplify(size1.subs(env)), bool(want), fname, bool(got)))
            if verdict is None:
                R.holds('S6', '%s::isAvailable' % short_fn(cq), 'returns the stored flag %s, which update() and reset() leave equal to (window full) on every path (W = 1, 2, 5; every fill level)' % fname, fx.rel(f['loc']), 'E-STATE')
            elif verdict[0] == 'violated':
                R.violated('S6', '%s::isAvailable:flag' % short_fn(cq), verdict[1], fx.rel(f['loc']), 'E-STATE')
            else:
                R.undecided('S6', '%s::isAvailable' % short_fn(cq), verdict[1])
        elif len(sts) == 1 and isinstance(sts[0].ret, sp.Basic) and sts[0].ret.free_symbols <= {size0, W}:
            bad = None
            for Wv in (1, 2, 5):
                for s0 in range(0, Wv + 1):
                    v_ = sts[0].ret.subs({size0: s0, W: Wv})
                    if v_ not in (sp.true, sp.false):
                        v_ = sp.true if v_ == 1 else sp.false if v_ == 0 else v_
                    if v_ in (sp.true, sp.false) and bool(v_) != (s0 == Wv) and bad is None:
                        bad = (Wv, s0, bool(v_))
            if bad:
                R.violated('S6', '%s::isAvailable' % short_fn(cq), 'isAvailable() is `%s`: with a window of %d holding %d sample(s) it answers %s; availability is reported exactly when W samples have arrived' % (
                    sts[0].ret, bad[0], bad[1], bad[2]), fx.rel(f['loc']), 'E-STATE')
            else:
                R.holds('S6', '%s::isAvailable' % short_fn(cq), '`%s` agrees with (size == W) for W = 1, 2, 5 and every fill level' % sts[0].ret, fx.rel(f['loc']), 'E-STATE')
        else:
            R.undecided('S6', '%s::isAvailable' % short_fn(cq), 'isAvailable is not `data_.size() == windowSize_` nor a stored flag: %s' % [s.ret for s in sts])
        # who changes the window?
        rec = fx.records.get(cq)
        for mth in rec['methods']:
            if mth.get('ctor') or mth['name'].startswith('~') or mth.get('implicit'):
                continue
            for fb in fx.fn(mth['q']):
                if fb.get('body') is None:
                    continue
                grows = shrinks = False
                for x in walk(fb['body']):
                    if x.get('k') == 'MCall' and x.get('m') in ('push_back', 'emplace_back', 'insert', 'resize', 'assign') and pp(strip_casts(x['obj'])) in ('this.data_',):
                        grows = True
                    if x.get('k') == 'MCall' and x.get('m') in ('clear', 'pop_back', 'erase', 'resize', 'assign') and pp(strip_casts(x['obj'])) in ('this.data_',):
                        shrinks = True
                if grows or shrinks:
                    ok = (mth['name'] == 'update' and grows and not shrinks) or (mth['name'] == 'reset' and shrinks and not grows)
                    R.check(ok, 'S6', '%s::%s:window-size' % (short_fn(cq), mth['name']),
                            '%s changes the number of samples in the window (%s); only update() may grow it and only reset() may empty it' % (mth['name'], 'grows' if grows else 'shrinks'),
                            'window grows only in update(), empties only in reset()', fx.rel(fb['loc']), 'E-STATE')
