"""E-STEP: scalar step evaluator.  A loop body (statements of the extracted AST) is evaluated on concrete witness states of a scalar
abstraction (one coordinate of every vector; `X[i]`, `X(i)`, `X.array()` denote the scalar X).  Nothing of the library is compiled or
run: the evaluator walks the extracted statements.  Anything it cannot interpret raises Unsupported (-> UNDECIDED), never a guess."""
from .tree import sx


class Unsupported(Exception):
    pass


CMP = {'<': lambda a, b: a < b, '<=': lambda a, b: a <= b, '>': lambda a, b: a > b, '>=': lambda a, b: a >= b, '==': lambda a, b: a == b, '!=': lambda a, b: a != b}
def _div(a, b):
    if isinstance(a, int) and isinstance(b, int) and not isinstance(a, bool) and not isinstance(b, bool) and b != 0:
        q = abs(a) // abs(b)            # both operands integers: C++ integer division (truncation toward zero)
        return q if (a >= 0) == (b > 0) else -q
    a, b = float(a), float(b)
    if b == 0.0:                      # IEEE-754: x/0 = +-inf, 0/0 = nan
        if a == 0.0 or a != a:
            return float('nan')
        return float('inf') if (a > 0) == (str(b)[0] != '-') else float('-inf')
    return a / b


ARI = {'+': lambda a, b: a + b, '-': lambda a, b: a - b, '*': lambda a, b: a * b, '/': _div}
ABS = ('.abs', '.cwiseAbs', 'std::abs', 'abs', 'std::fabs', 'fabs')
QUOT = ('.cwiseQuotient',)
REDUCE = ('.all', '.prod', '.any', '.minCoeff', '.maxCoeff')      # reductions over the coordinates: identity on one generic coordinate


MACHINE = {'double': {'epsilon': 2.0 ** -52, 'min': 2.0 ** -1022, 'max': 1.7976931348623157e308, 'lowest': -1.7976931348623157e308, 'infinity': float('inf'), 'quiet_NaN': float('nan'), 'denorm_min': 5e-324},
           'float': {'epsilon': 2.0 ** -23, 'min': 2.0 ** -126, 'max': 3.4028234663852886e38, 'lowest': -3.4028234663852886e38, 'infinity': float('inf'), 'quiet_NaN': float('nan'), 'denorm_min': 2.0 ** -149}}


class _Break(Exception):
    pass


class _Continue(Exception):
    pass


class Returned(Exception):
    def __init__(self, v):
        self.v = v
MINS = ('.min', '.cwiseMin', 'std::min', 'min', 'std::fmin', 'fmin')
MAXS = ('.max', '.cwiseMax', 'std::max', 'max', 'std::fmax', 'fmax')
TRANSPARENT = ('.array', '.matrix', '.eval', '.derived')


class Step:
    def __init__(self, unwrap, index_vars=(), aliases=None):
        self.unwrap = unwrap                  # normaliser of s-expressions (erases Eigen wrappers / casts)
        self.index_vars = set(index_vars)     # component loop variables: X[i] is the scalar X
        self.aliases = dict(aliases or {})    # local reference name -> key
        self.hooks = {}                       # operator -> callable(expr, env): caller-supplied meaning of a call
        self.fallback = None                  # callable(expr, env) -> value | NotImplemented, asked before an expression is given up
        self.consts = {}                      # namespace-scope constants the compiler folded (collected from the bodies that are run)
        self.loops = 0                        # > 0: while / do / range-for loops are really run, at most that many rounds (concrete sequences, see list_hooks)

    def key(self, t):
        while isinstance(t, tuple):
            if t[0] in ('[]', '()') and len(t) == 3 and (t[2] in self.index_vars or isinstance(t[2], int)):
                t = t[1]
            elif t[0] in TRANSPARENT and len(t) == 2:
                t = t[1]
            else:
                raise Unsupported('lvalue %s' % (t,))
        if not isinstance(t, str):
            raise Unsupported('lvalue %s' % (t,))
        return self.aliases.get(t, t)

    def ev(self, t, env):
        if isinstance(t, bool):
            return t
        if isinstance(t, (int, float)):
            return t
        if isinstance(t, str):
            k = self.aliases.get(t, t)
            if k in env:
                return env[k]
            if k in self.consts:
                return self.consts[k]
            raise Unsupported('unknown name %s' % t)
        if not isinstance(t, tuple) or not t:
            raise Unsupported('expression %s' % (t,))
        try:
            if t in env:                      # a whole expression given a value by the caller (e.g. ('.size', 'points'))
                return env[t]
        except TypeError:
            pass
        op = t[0]
        if op in self.hooks:
            return self.hooks[op](t, env)
        if op in ('[]', '()') and len(t) == 3 and (t[2] in self.index_vars or isinstance(t[2], int)):
            b_ = self.ev(t[1], env)
            if isinstance(b_, list) and isinstance(t[2], int):
                return b_[t[2]]                 # a concrete small vector held as a list: element access
            return b_
        if op in TRANSPARENT and len(t) == 2:
            return self.ev(t[1], env)
        if isinstance(op, str) and op.startswith('std::numeric_limits<') and len(t) == 1:
            ty, _, member = op[len('std::numeric_limits<'):].rpartition('>::')
            tab = MACHINE.get(ty.strip())
            if tab and member in tab:
                return tab[member]
            raise Unsupported('machine constant %s' % op)
        if op in CMP and len(t) == 3:
            return CMP[op](self.ev(t[1], env), self.ev(t[2], env))
        if op in ARI and len(t) == 3:
            return ARI[op](self.ev(t[1], env), self.ev(t[2], env))
        if op in ('|', '&', '^', '<<', '>>', '%') and len(t) == 3:
            a, b = self.ev(t[1], env), self.ev(t[2], env)
            if isinstance(a, bool):
                a = int(a)
            if isinstance(b, bool):
                b = int(b)
            if not (isinstance(a, int) and isinstance(b, int)):
                raise Unsupported('integer operator %s on %s, %s' % (op, a, b))
            if op == '%':
                if b == 0:
                    raise Unsupported('modulo by zero')
                return int(abs(a) % abs(b)) * (1 if a >= 0 else -1)         # C++ remainder: sign of the dividend
            return {'|': a | b, '&': a & b, '^': a ^ b, '<<': a << b, '>>': a >> b}[op]
        if op == '?:' and len(t) == 4:
            return self.ev(t[2], env) if self.ev(t[1], env) else self.ev(t[3], env)
        if op == '&&':
            return bool(self.ev(t[1], env)) and bool(self.ev(t[2], env))
        if op == '||':
            return bool(self.ev(t[1], env)) or bool(self.ev(t[2], env))
        if op in ('!', 'u!') and len(t) == 2:
            return not self.ev(t[1], env)
        if op in ('u-', '-') and len(t) == 2:
            return -self.ev(t[1], env)
        if op in ('u+', '+') and len(t) == 2:
            return self.ev(t[1], env)
        if op == '?' and len(t) == 4:
            return self.ev(t[2], env) if self.ev(t[1], env) else self.ev(t[3], env)
        if op in ABS and len(t) == 2:
            return abs(self.ev(t[1], env))
        if op in ('std::sqrt', 'sqrt', 'std::sqrtf', 'sqrtf') and len(t) == 2:
            import math
            v = self.ev(t[1], env)
            return math.sqrt(v) if v >= 0 else float('nan')
        if op in QUOT and len(t) == 3:
            return _div(self.ev(t[1], env), self.ev(t[2], env))
        if op in REDUCE and len(t) == 2:
            return self.ev(t[1], env)
        if isinstance(op, str) and op.startswith('new:') and (len(t) == 2 or (len(t) == 3 and isinstance(t[2], tuple) and t[2] and str(t[2][0]).endswith('::PrivateType'))):
            return self.ev(t[1], env)
        if op in MINS and len(t) == 3:
            return min(self.ev(t[1], env), self.ev(t[2], env))
        if op in MAXS and len(t) == 3:
            return max(self.ev(t[1], env), self.ev(t[2], env))
        if self.loops and isinstance(op, str):
            # concrete sequences (list_hooks): construction, growth and element stores of standard containers
            if op.startswith(('new:std::vector<', 'new:std::deque<', 'new:std::list<')):
                args_ = [a_ for a_ in t[1:] if not (isinstance(a_, tuple) and a_ and str(a_[0]).startswith('new:') and 'allocator' in str(a_[0]))]
                if not args_:
                    return []
                n_ = self.ev(args_[0], env)
                if isinstance(n_, list) and len(args_) == 1:
                    return list(n_)
                if isinstance(n_, int) and not isinstance(n_, bool) and 0 <= n_ <= 100000 and len(args_) <= 2:
                    fill_ = self.ev(args_[1], env) if len(args_) == 2 else 0
                    return [fill_] * n_
                raise Unsupported('sequence construction %s' % (t,))
            if op in ('.push_back', '.emplace_back') and len(t) == 3:
                cont = env.get(self.key(t[1])) if not isinstance(t[1], tuple) or t[1][0] == '.' else None
                if isinstance(cont, list):
                    v = self.ev(t[2], env)
                    cont.append(list(v) if isinstance(v, list) else v)
                    return None
            if op in ('.reserve', '.shrink_to_fit') and isinstance(env.get(self.key(t[1])) if isinstance(t[1], str) else None, list):
                return None
            if op == '.clear' and isinstance(t[1], str) and isinstance(env.get(self.key(t[1])), list):
                del env[self.key(t[1])][:]
                return None
            if op == '.resize' and len(t) == 3 and isinstance(t[1], str) and isinstance(env.get(self.key(t[1])), list):
                n_ = self.ev(t[2], env)
                cont = env[self.key(t[1])]
                if isinstance(n_, int) and 0 <= n_ <= 100000:
                    del cont[n_:]
                    cont.extend([0] * (n_ - len(cont)))
                    return None
            if op == '=' and len(t) == 3 and isinstance(t[1], tuple) and len(t[1]) == 3 and t[1][0] in ('[]', '.at') and isinstance(t[1][1], str) and isinstance(env.get(self.key(t[1][1])), list) \
                    and not isinstance(t[1][2], int):
                i_ = self.ev(t[1][2], env)
                cont = env[self.key(t[1][1])]
                if isinstance(i_, int) and not isinstance(i_, bool):
                    if not (0 <= i_ < len(cont)):
                        raise Unsupported('store at %d outside a sequence of %d' % (i_, len(cont)))
                    v = self.ev(t[2], env)
                    cont[i_] = list(v) if isinstance(v, list) else v
                    return v
        if op in ('=', '+=', '-=', '*=', '/=') and len(t) == 3 and isinstance(t[1], tuple) and len(t[1]) == 3 and t[1][0] in ('[]', '()') and isinstance(t[1][2], int):
            try:
                cont = env.get(self.key(t[1][1]))
            except Unsupported:
                cont = None
            if isinstance(cont, list):              # element of a concrete small vector
                v = self.ev(t[2], env)
                cont[t[1][2]] = v if op == '=' else ARI[op[0]](cont[t[1][2]], v)
                return cont[t[1][2]]
        if op == '=' and len(t) == 3:
            v = self.ev(t[2], env)
            env[self.key(t[1])] = v
            return v
        if op in ('+=', '-=', '*=', '/=') and len(t) == 3:
            k = self.key(t[1])
            if k not in env:
                raise Unsupported('compound assignment to unknown %s' % k)
            env[k] = ARI[op[0]](env[k], self.ev(t[2], env))
            return env[k]
        if self.fallback is not None:
            r = self.fallback(t, env)
            if r is not NotImplemented:
                return r
        raise Unsupported('expression %s' % (t,))

    def run(self, node, env, ignore=()):
        """Executes statement `node` on env (dict key -> number).  `ignore`: keys whose updates are outside the abstraction (skipped)."""
        if node is None:
            return
        k = node['k']
        if k == 'Compound':
            for x in node['s']:
                self.run(x, env, ignore)
        elif k == 'Expr':
            t = self.unwrap(sx(node['e']))
            if isinstance(t, tuple) and len(t) == 3 and t[0] in ('=', '+=', '-=', '*=', '/='):
                try:
                    if self.key(t[1]) in ignore:
                        return
                except Unsupported:
                    pass
            self.ev(t, env)
        elif k == 'Return':
            raise Returned(self.ev(self.unwrap(sx(node['e'])), env) if node.get('e') is not None else None)
        elif k == 'If':
            from .tree import const_value as _cv
            folded = _cv(node['c']) if self.loops else None
            if (bool(folded) if folded is not None else self.ev(self.unwrap(sx(node['c'])), env)):
                self.run(node.get('t'), env, ignore)
            else:
                self.run(node.get('e'), env, ignore)
        elif k == 'Decl':
            for v in node['vars']:
                if isinstance(env, Env):
                    # a fixed-size Eigen column vector declared without a value: a concrete small vector (its entries are written before they are read, or the read is of what the code left)
                    import re as _re
                    m_ = _re.match(r'(?:const )?Eigen::Matrix<[^,]+, (\d+), 1[,>]', (v.get('t') or {}).get('s', ''))
                    i0 = self.unwrap(sx(v['init'])) if v.get('init') is not None else None
                    if m_ and int(m_.group(1)) <= 4 and (v.get('init') is None or (isinstance(i0, tuple) and len(i0) == 1 and str(i0[0]).startswith('new:'))):
                        env[v['name']] = [0] * int(m_.group(1))
                        continue
                if v.get('init') is None:
                    raise Unsupported('uninitialised local %s' % v['name'])
                from .tree import const_value
                cv = const_value(v['init'])
                if isinstance(cv, (int, float)) and not isinstance(cv, bool) and (v.get('t') or {}).get('c') in ('int', 'fp'):
                    env[v['name']] = cv             # an initialiser the compiler folded (a trait constant, a constexpr)
                    continue
                t = self.unwrap(sx(v['init']))
                if (v.get('t') or {}).get('ref') and isinstance(env, Env) and isinstance(t, tuple) and len(t) == 3 and t[0] in ('[]', '()') and isinstance(t[2], int) and not isinstance(t[2], bool):
                    try:
                        bk_ = self.key(t[1])
                        if isinstance(env.get(bk_), list) and 0 <= t[2] < len(env[bk_]):
                            self.aliases[v['name']] = ('elem', bk_, t[2])         # a reference to one element of a concrete small vector
                            continue
                    except Unsupported:
                        pass
                if (v.get('t') or {}).get('ref'):
                    try:
                        self.aliases[v['name']] = self.key(t)
                        continue
                    except Unsupported:
                        pass
                val = self.ev(t, env)
                ty = v.get('t') or {}
                if ty.get('c') == 'int' and ty.get('signed') is False and isinstance(val, int) and not isinstance(val, bool) and val < 0 and ty.get('bits'):
                    val %= 2 ** int(ty['bits'])            # conversion of a negative integer to an unsigned type: modulo 2^N
                env[v['name']] = val
        elif k == 'For' and self.loops:
            # a real loop over a concrete sequence / counter
            if node.get('init') is not None:
                self.run(node['init'], env, ignore)
            n_ = 0
            while node.get('c') is None or self.ev(self.unwrap(sx(node['c'])), env):
                n_ += 1
                if n_ > self.loops:
                    raise Unsupported('loop at %s does not end within %d rounds' % (node.get('loc'), self.loops))
                try:
                    self.run(node.get('b'), env, ignore)
                except _Break:
                    break
                except _Continue:
                    pass
                if node.get('inc') is not None:
                    inc = self.unwrap(sx(node['inc']))
                    for i_ in (list(inc[1:]) if isinstance(inc, tuple) and inc and inc[0] == ',' else [inc]):
                        self.ev(i_, env)
        elif k == 'For':
            # component loop: for (i = 0; i < SIZE; ++i) over the coordinates -> one generic coordinate
            init = node.get('init')
            if not (init and init['k'] == 'Decl' and len(init['vars']) == 1):
                raise Unsupported('loop at %s' % node.get('loc'))
            self.index_vars.add(init['vars'][0]['name'])
            self.run(node.get('b'), env, ignore)
        elif k in ('While', 'Do') and self.loops:
            n_ = 0
            if k == 'Do':
                self.run(node.get('b'), env, ignore)
            while self.ev(self.unwrap(sx(node['c'])), env):
                n_ += 1
                if n_ > self.loops:
                    raise Unsupported('loop at %s does not end within %d rounds' % (node.get('loc'), self.loops))
                try:
                    self.run(node.get('b'), env, ignore)
                except _Break:
                    break
                except _Continue:
                    continue
        elif k == 'RangeFor' and self.loops:
            seq = self.ev(self.unwrap(sx(node['range'])), env)
            if not isinstance(seq, (list, tuple)):
                raise Unsupported('range-for over %s' % (seq,))
            for item in list(seq):
                env[node['var']['name']] = item
                try:
                    self.run(node.get('b'), env, ignore)
                except _Break:
                    break
                except _Continue:
                    continue
        elif k == 'Break' and self.loops:
            raise _Break()
        elif k == 'Continue' and self.loops:
            raise _Continue()
        elif k == 'Null':
            return
        else:
            raise Unsupported('statement %s at %s' % (k, node.get('loc')))


    def call(self, body, env, ignore=()):
        """Runs a function body; returns its return value (None if it falls off the end)."""
        from .tree import walk
        for x in walk(body):
            if isinstance(x, dict) and x.get('k') == 'Ref' and x.get('rk') == 'global' and not x.get('mut') and isinstance(x.get('cv'), (int, float)) and not isinstance(x.get('cv'), bool):
                self.consts.setdefault(x['name'], x['cv'])
        try:
            self.run(body, env, ignore)
        except Returned as r:
            return r.v
        return None


class Env(dict):
    """environment of the step evaluator in which a key may be ('elem', base, i): element i of the concrete small vector stored under `base` (a local reference `size_t & x = v[0]`)"""
    def __getitem__(self, k):
        if isinstance(k, tuple) and len(k) == 3 and k[0] == 'elem':
            return dict.__getitem__(self, k[1])[k[2]]
        return dict.__getitem__(self, k)

    def __setitem__(self, k, v):
        if isinstance(k, tuple) and len(k) == 3 and k[0] == 'elem':
            dict.__getitem__(self, k[1])[k[2]] = v
        else:
            dict.__setitem__(self, k, v)

    def __contains__(self, k):
        if isinstance(k, tuple) and len(k) == 3 and k[0] == 'elem':
            return dict.__contains__(self, k[1]) and isinstance(dict.__getitem__(self, k[1]), list) and 0 <= k[2] < len(dict.__getitem__(self, k[1]))
        return dict.__contains__(self, k)

    def get(self, k, d=None):
        return self[k] if k in self else d


def inliner(fx, step, max_depth=4, cls=None):
    """A fallback for `step` that evaluates calls of in-repository free functions / methods with a body (unique by name and arity) by running the callee's body on the argument values
    (value semantics; no write-back).  step.fallback = inliner(fx, step)."""
    depth = [0]

    def fb(t, env):
        op = t[0]
        if not isinstance(op, str) or depth[0] >= max_depth:
            return NotImplemented
        method = op.startswith('.')
        name = op.lstrip('.').split('<')[0].split('::')[-1]
        if '>::' in op:
            name = op.rsplit('>::', 1)[-1].split('<')[0]          # static member of a class template: A<B, C>::f
        args = t[2:] if method else t[1:]
        cands = [g for g in fx.functions.values() if g.get('body') is not None and g['name'] == name and len(g.get('params', [])) == len(args)]
        if cls is not None and method and any(g.get('cls') == cls for g in cands):
            cands = [g for g in cands if g.get('cls') == cls]            # a member call on *this: the member of the class being read
        if len({g['q'].split('<')[0] for g in cands}) != 1:
            return NotImplemented
        g = cands[0]
        sub = Step(step.unwrap, index_vars=set(step.index_vars))
        sub.hooks = dict(step.hooks)
        sub.loops = step.loops
        if step.loops:
            list_hooks(sub, step.loops)                       # the callee's own iterators act on the callee's environment
        inner = sub.fallback
        sub.fallback = (lambda t_, e_: (lambda r_: r_ if r_ is not NotImplemented else fb(t_, e_))(inner(t_, e_))) if inner is not None else fb
        e2 = (Env if isinstance(env, Env) else dict)({p_['name']: step.ev(a_, env) for p_, a_ in zip(g['params'], args)})
        for k_, v_ in env.items():
            if isinstance(k_, str) and k_.startswith('this.') and method:
                e2.setdefault(k_, v_)
        depth[0] += 1
        try:
            return sub.call(g['body'], e2)
        finally:
            depth[0] -= 1
    return fb


class SeqIter(object):
    """a position in a concrete sequence (std::list / std::vector iterators of the step evaluator)"""
    def __init__(self, seq, i):
        self.seq, self.i = seq, i

    def __eq__(self, o):
        return isinstance(o, SeqIter) and o.seq is self.seq and o.i == self.i

    def __ne__(self, o):
        return not self.__eq__(o)

    def __hash__(self):
        return hash((id(self.seq), self.i))

    def deref(self):
        if not (0 <= self.i < len(self.seq)):
            raise Unsupported('iterator dereferenced outside the sequence (position %d of %d)' % (self.i, len(self.seq)))
        return self.seq[self.i]


def list_hooks(step, loops=10000):
    """Gives `step` concrete sequences: env maps a container name to a python list (elements: numbers, or dicts field -> value); begin/end/cbegin/cend (member and std::),
    ++/-- on iterators, *it, it->field, size(), empty(), front(), back(), std::next/prev."""
    step.loops = loops

    def seq(t, env):
        v = step.ev(t, env)
        if not isinstance(v, list):
            raise Unsupported('not a sequence: %s' % (t,))
        return v
    for nm in ('std::cbegin', 'std::begin', '.begin', '.cbegin'):
        step.hooks[nm] = lambda t, env: SeqIter(seq(t[1], env), 0)
    for nm in ('std::cend', 'std::end', '.end', '.cend'):
        step.hooks[nm] = lambda t, env: SeqIter(seq(t[1], env), len(seq(t[1], env)))
    def subscript(t, env):
        b_ = step.ev(t[1], env)
        i_ = step.ev(t[2], env)
        if isinstance(b_, list) and isinstance(i_, int) and not isinstance(i_, bool):
            if not (0 <= i_ < len(b_)):
                raise Unsupported('subscript %d outside a sequence of %d' % (i_, len(b_)))
            return b_[i_]
        if isinstance(b_, list):
            raise Unsupported('subscript %s' % (i_,))
        return b_                                  # scalar abstraction of a vector quantity
    step.hooks['[]'] = subscript
    step.hooks['.at'] = subscript
    step.hooks['.size'] = lambda t, env: len(seq(t[1], env))
    step.hooks['.empty'] = lambda t, env: len(seq(t[1], env)) == 0
    step.hooks['.front'] = lambda t, env: SeqIter(seq(t[1], env), 0).deref()
    step.hooks['.back'] = lambda t, env: SeqIter(seq(t[1], env), len(seq(t[1], env)) - 1).deref()

    def incr(d, post):
        def h(t, env):
            v = step.ev(t[1], env)
            k = step.key(t[1])
            if isinstance(v, SeqIter):
                nv = SeqIter(v.seq, v.i + d)
            elif isinstance(v, (int, float)) and not isinstance(v, bool):
                nv = v + d
            else:
                raise Unsupported('increment of %s' % (v,))
            env[k] = nv
            return v if post else nv
        return h
    step.hooks['++'] = incr(1, False)
    step.hooks['++u'] = incr(1, False)
    step.hooks['u++'] = incr(1, False)
    step.hooks['p++'] = incr(1, True)
    step.hooks['--'] = incr(-1, False)
    step.hooks['--u'] = incr(-1, False)
    step.hooks['u--'] = incr(-1, False)
    step.hooks['p--'] = incr(-1, True)

    def deref(t, env):
        v = step.ev(t[1], env)
        if isinstance(v, SeqIter):
            return v.deref()
        raise Unsupported('dereference of %s' % (v,))
    step.hooks['->'] = deref
    step.hooks['u*'] = deref

    def nxt(d):
        def h(t, env):
            v = step.ev(t[1], env)
            n_ = step.ev(t[2], env) if len(t) > 2 else 1
            if not isinstance(v, SeqIter):
                raise Unsupported('std::next of %s' % (v,))
            return SeqIter(v.seq, v.i + d * int(n_))
        return h
    step.hooks['std::next'] = nxt(1)
    step.hooks['std::prev'] = nxt(-1)
    prev_fb = step.fallback

    def fb(t, env):
        if isinstance(t[0], str) and t[0].startswith('.member:') and len(t) == 2:
            o = step.ev(t[1], env)
            f_ = t[0][len('.member:'):]
            if isinstance(o, dict) and f_ in o:
                return o[f_]
            raise Unsupported('field %s of %s' % (f_, o))
        return prev_fb(t, env) if prev_fb is not None else NotImplemented
    step.fallback = fb
    return step
