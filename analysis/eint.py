"""E-INT: integer / range lints on the typed expression trees (no execution):
  * interval evaluation of integer arithmetic against the width of the node's type, with operand
    ranges taken from the property quantifier;
  * unsigned subtraction (or possibly-negative signed->unsigned conversion) inside the dividend of `%`;
  * seeds of running minima / maxima."""
from fractions import Fraction
from .tree import pp, strip_casts, walk, const_value


def type_range(t):
    if t.get('c') != 'int':
        return None
    b = t['bits']
    if t.get('signed'):
        return (-(1 << (b - 1)), (1 << (b - 1)) - 1)
    return (0, (1 << b) - 1)


class Overflow:
    def __init__(self, node, rng, trng):
        self.node, self.rng, self.trng = node, rng, trng


def interval(e, ranges, findings):
    """Exact interval of an integer/floating expression given ranges for leaves.
    ranges: callable(node) -> (lo, hi) or None.  Appends Overflow findings for integer-typed arithmetic
    nodes whose mathematical range exceeds the node type."""
    if e is None:
        return None
    r = ranges(e)
    if r is not None:
        return r
    cv = const_value(e)
    if isinstance(cv, (int, float)) and not isinstance(cv, bool):
        f = Fraction(cv)
        return (f, f)
    k = e['k']
    if k in ('Cast', 'DefaultArg'):
        inner = interval(e['e'], ranges, findings)
        if inner is None:
            return None
        tr = type_range(e['t'])
        if tr and e['e']['t'].get('c') == 'int' and (inner[0] < tr[0] or inner[1] > tr[1]):
            findings.append(Overflow(e, inner, tr))
        if e['t'].get('c') == 'int' and e['e']['t'].get('c') == 'fp':
            import math
            return (Fraction(math.floor(inner[0])), Fraction(math.ceil(inner[1])))
        return inner
    if k == 'Construct' and len(e.get('args', [])) == 1:
        return interval(e['args'][0], ranges, findings)
    if k == 'Bin' and e['op'] in ('+', '-', '*'):
        a = interval(e['l'], ranges, findings)
        b = interval(e['r'], ranges, findings)
        if a is None or b is None:
            return None
        if e['op'] == '+':
            r = (a[0] + b[0], a[1] + b[1])
        elif e['op'] == '-':
            r = (a[0] - b[1], a[1] - b[0])
        else:
            c = [a[0] * b[0], a[0] * b[1], a[1] * b[0], a[1] * b[1]]
            r = (min(c), max(c))
        tr = type_range(e['t'])
        if tr and (r[0] < tr[0] or r[1] > tr[1]):
            findings.append(Overflow(e, r, tr))
        return r
    if k == 'Un' and e['op'] == '-':
        a = interval(e['e'], ranges, findings)
        return None if a is None else (-a[1], -a[0])
    return None


# ---------------------------------------------------------------------------------------------
def additive_terms(e, sign=1, out=None):
    """Flattens a +/- chain (through casts and parentheses) into [(sign, node)]."""
    if out is None:
        out = []
    e0 = e
    while e0 is not None and e0.get('k') in ('Cast', 'DefaultArg'):
        e0 = e0['e']
    if e0 is not None and e0.get('k') == 'Bin' and e0['op'] in ('+', '-'):
        additive_terms(e0['l'], sign, out)
        additive_terms(e0['r'], sign if e0['op'] == '+' else -sign, out)
    else:
        out.append((sign, e0))
    return out


def is_unsigned(t):
    return t.get('c') == 'int' and not t.get('signed')


def signed_to_unsigned_casts(e):
    """Integral conversions below e that turn a signed (possibly negative) value into an unsigned one."""
    out = []
    for x in walk(e):
        if x.get('k') == 'Cast' and x.get('ck') == 'IntegralCast' and is_unsigned(x['t']) and x['e']['t'].get('c') == 'int' \
                and x['e']['t'].get('signed') and const_value(x['e']) is None:
            out.append(x)
    return out


def modulus_findings(fn_body, nonneg=lambda node: False):
    """Every `a % m` with an unsigned dividend: a negative additive term must be compensated by a positive term
    that is (a multiple of) the modulus itself, and no possibly-negative signed value may be converted to
    unsigned inside the dividend.  Returns [(mod node, kind, offending node)] and the number of `%` nodes seen."""
    res = []
    n = 0
    for x in walk(fn_body):
        if x.get('k') == 'Bin' and x['op'] in ('%', '%='):
            n += 1
            dividend, modulus = x['l'], x['r']
            if not is_unsigned(x['t']) and not is_unsigned(strip_casts(dividend)['t']):
                continue
            mstr = pp(strip_casts(modulus))
            terms = additive_terms(dividend)
            pos = [pp(t) for (s, t) in terms if s > 0]
            for (s, t) in terms:
                if s < 0:
                    if mstr not in pos:
                        res.append((x, 'unsigned-subtraction', t))
                    # a compensated subtraction is accepted (the subtrahend is bounded by the modulus by contract)
            for c in signed_to_unsigned_casts(dividend):
                if not nonneg(c['e']):
                    res.append((x, 'signed-to-unsigned', c['e']))
    return res, n
