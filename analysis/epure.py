"""E-PURE: hidden-state analysis for functions the property requires to be functions of their arguments.

A function-local static (or thread_local) that is not const is state that survives the call.  The symbolic reader gives it an
unknown entry value `static:<name>`; per path we get the returned value, the path condition and the values the statics are left with.
Rule (cache coherence): if a path returns a value that depends on the entry value of a static S (a "hit"), then for the paths that
store S (a "miss", S := f(parameters)), every parameter f depends on must be compared equal, on the hit path, with a static that the
miss path loads from exactly that parameter.  A parameter without such a comparison means two calls that differ only in it get the
same answer: VIOLATED, naming the parameter.  No mutable static and no mutable global read: HOLDS.  Anything else: UNDECIDED."""
import sympy as sp
from . import sym
from .tree import walk


def mutable_state(f):
    """(static locals, mutable globals read) of one function body."""
    statics, globs = [], set()
    for x in walk(f.get('body')):
        if x.get('k') == 'Decl':
            for v in x['vars']:
                if v.get('static') and not v['t'].get('const'):
                    statics.append(v['name'])
        if x.get('k') == 'Ref' and x.get('rk') == 'global' and x.get('mut'):
            globs.add(x.get('name'))
    return statics, sorted(globs)


def check(fx, R, rule, f, inst, loc, reader_kw=None):
    root_ = R
    while hasattr(root_, 'R'):
        root_ = root_.R              # delegating properties wrap the results object
    if hasattr(root_, 'extra'):
        root_.extra.setdefault('epure_functions', []).append(f['key'])
    statics, globs = mutable_state(f)
    if globs:
        R.undecided(rule, inst + ':hidden-state', 'reads the mutable namespace-scope variable(s) %s' % globs)
        return
    if not statics:
        R.holds(rule, inst + ':hidden-state', 'no function-local static and no mutable global is read: the result is a function of the arguments (and of *this)', loc, 'E-PURE')
        return
    rd = sym.Reader(fx, **(reader_kw or {}))
    try:
        paths = rd.run(f)
    except sym.Unsupported as e:
        R.undecided(rule, inst + ':hidden-state', 'keeps state in the static(s) %s across calls; not interpretable: %s' % (statics, e))
        return
    ids = {n: i for i, n in rd.statics.items()}
    S = {n: sp.Symbol('static:' + n, real=True) for n in ids}
    params = {sp.Symbol('arg:' + p['name'], real=True): p['name'] for p in f.get('params', [])}
    final = lambda st, n: (st.callee_locals or {}).get(ids[n])
    hits = [st for st in paths if isinstance(st.ret, sp.Basic) and any(str(a).startswith('static:') for a in st.ret.free_symbols)]
    if not hits:
        R.holds(rule, inst + ':hidden-state', 'static(s) %s never reach the returned value' % statics, loc, 'E-PURE')
        return
    for hit in hits:
        used = [str(a)[7:] for a in hit.ret.free_symbols if str(a).startswith('static:')]
        for n in used:
            if n not in ids:
                R.undecided(rule, inst + ':hidden-state', 'static %s not tracked' % n)
                return
            misses = [st for st in paths if isinstance(final(st, n), sp.Basic) and final(st, n) != S[n]]
            if not misses:
                R.undecided(rule, inst + ':hidden-state', 'static %s is returned but never stored' % n)
                return
            for ms in misses:
                deps = [p for p in final(ms, n).free_symbols if p in params]
                keyed = {}
                for k in ids:
                    fv = final(ms, k)
                    if fv in params:
                        keyed[fv] = S[k]
                missing = []
                for p in deps:
                    ks = keyed.get(p)
                    ok = False
                    if ks is not None:
                        for c in hit.cond:
                            e, pol = c[1], c[2]
                            if isinstance(e, sp.Basic):
                                if (isinstance(e, sp.Ne) and set(e.args) == {p, ks} and pol is False) or (isinstance(e, sp.Eq) and set(e.args) == {p, ks} and pol is True):
                                    ok = True
                    if not ok:
                        missing.append(params[p])
                if missing:
                    R.violated(rule, inst + ':stale-static', 'the value kept in the static `%s` is computed from the parameters %s, but the path that returns it unchanged compares only %s: two calls that '
                               'differ in `%s` alone get the same answer (the static survives the call and is shared by every caller on the thread)' % (
                                   n, sorted(params[p] for p in deps), sorted(params[p] for p in deps if params[p] not in missing) or 'nothing', missing[0]), loc, 'E-PURE')
                    return
    R.holds(rule, inst + ':hidden-state', 'static cache %s: every parameter the stored value depends on is compared on the path that re-uses it' % statics, loc, 'E-PURE')
