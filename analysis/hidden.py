"""H1: hidden state in the functions a property check read (and in the in-repo functions they call, transitively).

Every rule of a property reads functions as functions of their arguments and of *this.  A function-local `static` breaks that reading:
  * `static const T x = <expression of the parameters / of *this>`  is evaluated once per process, by whichever call comes first; every later
    call - other arguments, another object - re-uses that value.  The property modules quantify over arguments and objects, so this is
    reported as a violation, naming the variable and what its initialiser reads.
  * a non-const static is state that survives the call; the E-PURE engine decides it where a property module asked for it; elsewhere the
    function is not a function of its arguments as far as this analysis knows: UNDECIDED, never a pass.
A static whose initialiser reads nothing of the call (tables, constants) is not state."""
from .tree import walk, pp, strip_casts, const_value


import re

# relative accuracy each numeric property demands of its double-precision instantiations (from the statements): a double quantity that passes
# through single precision (relative spacing 6e-8) cannot meet it
PRECISION = {
    'C01': (1.5e-10, '1 mm on Earth-centred coordinates of 6.4e6 m'),
    'C02': (1e-8, '1 mm on local coordinates up to 100 km, distances preserved'),
    'C03': (1e-11, '1e-11 rad on the inverse map'),
    'C04': (1e-9, 'recovery to 1e-9 relative, invariance to the preconditioning scale'),
    'C05': (1e-9, 'exact recovery of a translation, invariance to the preconditioning scale'),
    'C07': (1e-10, 'normal-equation residual vanishing to (double) rounding'),
    'C09': (1e-9, 'exact normals on planar clouds'),
    'C10': (1e-9, 'mutual inverses of the angle / rotation / coordinate conversions'),
    'C11': (1e-12, 'planar components kept exactly'),
    'C12': (1e-9, 'derivative and covariance identities'),
    'C20': (1e-12, 'containment decided exactly on faces, edges and corners'),
}
FLOAT_SPACING = 6e-8


def narrowings(f):
    """(kind, text, loc) for every place of a non-float instantiation where a non-constant double value is converted to float, or an Eigen
    expression computed in float is widened to double"""
    if re.search(r'<[^>]*\bfloat\b', f['q']) or re.search(r'<[^>]*\bfloat\b', f.get('cls') or ''):
        return []
    out = []
    nodes = list(walk(f.get('body'))) + [y for i in f.get('inits', []) if i.get('e') is not None for y in walk(i['e'])]
    for y in nodes:
        if not isinstance(y, dict):
            continue
        if y.get('k') == 'Cast' and y.get('ck') == 'FloatingCast' and (y.get('t') or {}).get('bits') == 32 and 'cv' not in y and 'cv' not in (y.get('e') or {}):
            out.append(('a double value is converted to float', pp(y)[:100], y.get('loc')))
        if y.get('k') == 'MCall' and y.get('m') == 'cast':
            mm = re.search(r'scalar_cast_op<([^,<>]+), ([^<>]+?)>', (y.get('t') or {}).get('s', ''))
            if mm and mm.group(1).strip() == 'float' and mm.group(2).strip() in ('double', 'long double'):
                out.append(('an expression computed in float is widened to double', pp(y)[:100], y.get('loc')))
            if mm and mm.group(2).strip() == 'float' and mm.group(1).strip() in ('double', 'long double'):
                out.append(('a double expression is cast to float', pp(y)[:100], y.get('loc')))
        # a standard reduction accumulates in the type of its INITIAL VALUE: a float initial value over double elements rounds every partial sum to single precision
        if y.get('k') == 'Call' and (y.get('fn') or '').split('<')[0] in ('std::accumulate', 'std::inner_product', 'std::reduce', 'std::transform_reduce') and y.get('args'):
            fnq = y.get('fn') or ''
            init_ = y['args'][3] if 'inner_product' in fnq and len(y['args']) >= 4 else y['args'][2] if len(y['args']) >= 3 else None
            ti = (strip_casts(init_).get('t') or {}) if init_ is not None else {}
            over_double = 'double' in fnq.split('>(')[0]
            if ti.get('c') == 'fp' and ti.get('bits') == 32 and over_double:
                out.append(('a reduction over double elements accumulates in float (the type of its initial value `%s`)' % pp(init_)[:20], pp(y)[:100], y.get('loc')))
    return out


def per_call_reads(init):
    out = []
    for y in walk(init):
        if y.get('k') == 'This':
            out.append('*this')
        elif y.get('k') == 'Ref' and y.get('rk') in ('param', 'local') and 'cv' not in y:
            out.append(y.get('name'))
    return sorted(set(out))


def closure(fx, roots):
    seen, todo = {}, list(roots)
    while todo:
        f = todo.pop()
        if f is None or f.get('key') in seen or f.get('body') is None:
            continue
        seen[f['key']] = f
        for y in walk(f['body']):
            if y.get('inrepo') and y.get('fk'):
                g = fx.functions.get(y['fk'])
                if g is not None and g.get('key') not in seen:
                    todo.append(g)
    return list(seen.values())


def sweep(fx, R):
    roots = [f for q in sorted(R.analysed) for f in fx.by_q.get(q, [])]
    fns = closure(fx, roots)
    handled = set(R.extra.get('epure_functions', []))
    found = 0
    reported = set()
    for f in sorted(fns, key=lambda f: f['q']):
        for x in walk(f['body']):
            if x.get('k') != 'Decl':
                continue
            for v in x['vars']:
                if not v.get('static') and not v.get('tls'):
                    continue
                found += 1
                name = '%s:static:%s' % (f['q'].split('(')[0], v['name'])
                if name in reported:
                    continue
                reported.add(name)
                if v['t'].get('const'):
                    reads = per_call_reads(v.get('init')) if v.get('init') is not None else []
                    if reads:
                        R.violated('H1', name, '`static const %s = %s` is initialised once per process, by whichever call comes first, from %s; every later call - with other arguments or on another object - '
                                   're-uses that first value, so the result is not a function of the arguments and of the object the property quantifies over' % (
                                       v['name'], pp(v['init'])[:120], ', '.join(reads)), fx.rel(v.get('loc') or x.get('loc') or f['loc']), 'E-PURE')
                    else:
                        R.holds('H1', name, 'constant table / value: the initialiser reads nothing of the call', fx.rel(f['loc']), 'E-PURE')
                elif f['key'] in handled:
                    R.holds('H1', name, 'decided by the static-cache rule (E-PURE) of this property', fx.rel(f['loc']), 'E-PURE')
                else:
                    R.undecided('H1', name, 'the function keeps state across calls in the non-const static `%s`; its results were read as functions of the arguments only' % v['name'])
    # H1, namespace-scope form: a mutable variable outside any object (file scope, static or thread_local) that a member function fills with a value computed from THIS object's state and hands back
    for f in sorted(fns, key=lambda f: f['q']):
        if not f.get('cls') or f.get('ctor') or f.get('body') is None:
            continue
        written, readback = {}, set()
        for y in walk(f['body']):
            if not isinstance(y, dict):
                continue
            if (y.get('k') == 'Bin' and y.get('op') == '=') or (y.get('k') == 'Op' and y.get('op') == '=' and len(y.get('args', [])) == 2):
                l_, r_ = (y['l'], y['r']) if y.get('k') == 'Bin' else (y['args'][0], y['args'][1])
                l0 = strip_casts(l_)
                if l0.get('k') == 'Ref' and l0.get('rk') == 'global' and l0.get('mut'):
                    uses_this = any(isinstance(z, dict) and (z.get('k') == 'This' or (z.get('k') == 'Member' and z.get('field') and z.get('cls') == f['cls'])) for z in walk(r_))
                    if uses_this:
                        written[l0['id']] = (l0['name'], y)
            if y.get('k') == 'Return' and y.get('e') is not None:
                for z in walk(y['e']):
                    if isinstance(z, dict) and z.get('k') == 'Ref' and z.get('rk') == 'global' and z.get('mut'):
                        readback.add(z['id'])
        for gid, (gname, node) in written.items():
            inst = '%s:shared-result:%s' % (f['q'].split('(')[0], gname)
            found += 1
            if gid in readback:
                R.violated('H1', inst, '`%s` is a namespace-scope variable (one per thread or per process, not per object): %s() stores in it a value computed from THIS object\'s state (`%s`) and returns it on later '
                           'calls - another object of the class (another anchor, another configuration) that asks with the same argument is answered with this object\'s result; invalidating it in this object\'s setters '
                           'does not help, the other object never called them' % (gname, f['name'], pp(node)[:100]), fx.rel(node.get('loc') or f['loc']), 'E-PURE')
            else:
                R.undecided('H1', inst, 'a namespace-scope variable is filled from this object\'s state; how it is read back was not followed')

    # H1, ambient form: `errno` is per-thread state that ANY earlier library call may have set; a function that tests it without having cleared it first answers according to what the thread did before
    for f in sorted(fns, key=lambda f: f['q']):
        if f.get('body') is None or f['body'].get('k') != 'Compound':
            continue
        def is_errno(n):
            n = strip_casts(n) if n is not None else {}
            return n.get('k') == 'Un' and n.get('op') == '*' and strip_casts(n.get('e') or {}).get('k') == 'Call' and (strip_casts(n['e']).get('fn') or '').endswith('__errno_location')
        cleared = False
        for stm in f['body']['s']:
            reads = [y for y in walk(stm) if isinstance(y, dict) and is_errno(y)]
            stores = [y for y in walk(stm) if isinstance(y, dict) and y.get('k') == 'Bin' and y.get('op') == '=' and is_errno(y.get('l'))]
            if stores and stm.get('k') == 'Expr':
                cleared = True
                continue
            if reads and not cleared:
                found += 1
                R.violated('H1', '%s:ambient:errno' % f['q'].split('(')[0], '%s() tests errno (`%s`) without having cleared it in this call: errno is per-thread state that any EARLIER library call of the application may '
                           'have left set (an exp() that underflowed, a strtod() out of range, a log(0)), and the functions called here only ever set it, never reset it - from that moment on the result does not '
                           'depend on the arguments and on the object alone' % (f['name'], pp(stm.get('c') or stm.get('e') or stm)[:90]), fx.rel(stm.get('loc') or f['loc']), 'E-PURE')
                break

    def base_member(e):
        e = strip_casts(e) if e is not None else None
        for _ in range(6):
            if e is None:
                return None
            if e.get('k') == 'Member' and e.get('field'):
                return e
            if e.get('k') == 'Op' and e.get('op') in ('[]', '()') and e.get('args'):
                e = strip_casts(e['args'][0])
            elif e.get('k') == 'MCall':
                e = strip_casts(e.get('obj'))
            else:
                return None
        return None

    def stores_in(node):
        out = []
        for y in walk(node):
            if isinstance(y, dict) and ((y.get('k') == 'Bin' and y.get('op') in ('=', '+=', '-=', '*=', '/=', '%=')) or (y.get('k') == 'Op' and y.get('op') in ('=', '+=', '-=', '*=', '/=', '%=') and len(y.get('args', [])) == 2)):
                l_, r_ = (y['l'], y['r']) if y.get('k') == 'Bin' else (y['args'][0], y['args'][1])
                bm = base_member(l_)
                if bm is not None:
                    out.append((bm, r_))
        return out

    def member_reads(node, cls, seen=None, depth=0):
        seen = seen if seen is not None else set()
        out = set()
        for y in walk(node):
            if not isinstance(y, dict):
                continue
            if y.get('k') == 'Member' and y.get('field') and y.get('cls') == cls:
                out.add(y['name'])
            if y.get('inrepo') and y.get('fk') and depth < 4 and y['fk'] not in seen:
                g_ = fx.functions.get(y['fk'])
                if g_ is not None and g_.get('body') is not None and g_.get('cls') == cls:
                    seen.add(y['fk'])
                    out |= member_reads(g_['body'], cls, seen, depth + 1)
        return out
    # ---- H3: a user-provided copy constructor hands over every member the functions read --------------------------------------
    from . import sym
    classes = sorted({f.get('cls') for f in fns if f.get('cls')})
    for cls in classes:
        cps = [g for g in fx.functions.values() if g.get('copyctor') and g.get('cls') == cls and g.get('body') is not None]
        rec = fx.records.get(cls) or {}
        fields = [fl_['name'] for fl_ in rec.get('fields', []) if not fl_.get('static')
                  and not (fl_.get('t') or {}).get('s', '').replace('mutable ', '').startswith(('std::mutex', 'std::shared_mutex', 'std::recursive_mutex', 'std::condition_variable', 'std::shared_timed_mutex'))]
        if not fields:
            continue
        # a user-written copy ASSIGNMENT has the same duty as the copy constructor (a = b; a container's element assignment; a state kept by value and re-assigned each cycle)
        cas = [g for g in fx.functions.values() if g.get('name') == 'operator=' and g.get('cls') == cls and g.get('body') is not None and len(g.get('params', [])) == 1
               and ((g['params'][0].get('t') or {}).get('s', '').replace('const ', '').replace('class ', '').strip(' &') == cls)
               and not ((g['params'][0].get('t') or {}).get('s', '').rstrip().endswith('&&'))]
        for g in (cps if len(cps) == 1 else []) + cas[:1]:
          kind = 'copy constructor' if g.get('copyctor') else 'copy assignment operator'
          # members whose value on entry some function of the class (that this check read) uses
          read = set()
          for f in fns:
              if f.get('cls') != cls or f.get('ctor'):
                  continue
              for y in walk(f.get('body')):
                  if isinstance(y, dict) and y.get('k') == 'Member' and y.get('field') and y.get('name') in fields:
                      read.add(y['name'])
          inst = '%s:%s' % (cls, kind.replace(' ', '-').replace('-operator', ''))
          try:
              sts = sym.Reader(fx).run(g)
          except sym.Unsupported as u:
              # loops and the like: the stores of the body are classified structurally - a member the read functions use must be assigned from the same member of the source on every path
              pname_ = g['params'][0]['name'] if g.get('params') else 'other'
              found_ = {}

              def scan_(node, under):
                  if not isinstance(node, dict):
                      return
                  k_ = node.get('k')
                  if k_ == 'If':
                      for arm in (node.get('t'), node.get('e')):
                          if arm is not None:
                              scan_(arm, under + [pp(node['c'])[:100]])
                      return
                  if k_ in ('Compound',):
                      for y_ in node.get('s', []):
                          scan_(y_, under)
                      return
                  if k_ in ('For', 'While', 'Do', 'RangeFor'):
                      scan_(node.get('b'), under)
                      return
                  if k_ == 'Expr':
                      for (bm, rhs) in stores_in(node):
                          if bm.get('cls') == cls and bm.get('name') in fields:
                              from_src = any(isinstance(y_, dict) and y_.get('k') == 'Member' and y_.get('name') == bm['name'] and isinstance(strip_casts(y_.get('base')), dict)
                                             and strip_casts(y_['base']).get('name') == pname_ for y_ in walk(rhs))
                              found_.setdefault(bm['name'], []).append((from_src, list(under)))
              scan_(g['body'], [])
              cond_only = [(fl_, v_[0][1][0]) for fl_, v_ in found_.items() if fl_ in read and all(fs_ and un_ for (fs_, un_) in v_)]
              never = [fl_ for fl_ in read if fl_ not in found_ and not g.get('copyctor')]
              if cond_only:
                  R.violated('H3', inst, 'the user-provided %s hands over %s only when `%s`; otherwise the target keeps the value it had - while the other members ARE taken from the source.  After `a = b` the object a '
                             'then mixes b\'s %s with its own old %s: what the functions this property reads return is neither a\'s old answer nor b\'s' % (kind, cond_only[0][0], cond_only[0][1], ', '.join(sorted(f_ for f_ in found_ if f_ not in dict(cond_only))) or 'members',
                                                                                               cond_only[0][0]), fx.rel(g['loc']), 'E-STATE')
              elif never:
                  R.undecided('H3', inst, 'user-provided %s not interpretable (%s); no assignment of %s found' % (kind, u, ', '.join(never)))
              else:
                  R.undecided('H3', inst, 'user-provided %s not interpretable: %s' % (kind, u))
              continue
          pname = g['params'][0]['name'] if g.get('params') else 'other'
          lost = []
          import re as _re

          def self_assignment(st_):
              # the path `this == &other` of a self-assignment guard: nothing needs to be handed over there
              for c_ in st_.cond:
                  txt = c_[0].replace(' ', '').replace('(', '').replace(')', '')
                  m_ = _re.search(r'(?:this(!=|==)&%s|&%s(!=|==)this)' % (_re.escape(pname), _re.escape(pname)), txt)
                  if m_:
                      op_ = m_.group(1) or m_.group(2)
                      if (op_ == '==') == bool(c_[2]):
                          return True
              return False
          for st in sts:
              if self_assignment(st):
                  continue
              for fl_ in fields:
                  vals = [str(v) for k_, v in st.fields.items() if len(k_) >= 2 and k_[0] == 'this' and k_[1] == fl_]
                  copied = any(('%s.%s' % (pname, fl_)) in v_ or ('arg:%s' % pname) == v_ for v_ in vals)
                  if not copied and fl_ in read:
                      lost.append((fl_, vals[:1]))
          if lost and any('after the store' in (l_[1] or [''])[0] for l_ in lost):          # the reader's poison for a store it cannot model (an uninterpreted VALUE, e.g. Identity(n, n), is a value)
              R.undecided('H3', inst, 'the user-provided %s writes %s through a form the reader does not model (%s)' % (kind, ', '.join(sorted({l_[0] for l_ in lost})), (lost[0][1] or [''])[0][:80]))
          elif lost and not g.get('copyctor'):
              R.violated('H3', inst, 'the user-provided copy assignment operator does not hand over %s (the target keeps the value it had before the assignment); functions this property reads use that member, so after '
                         '`a = b` the object a does not answer like b: whatever a was configured / filled with earlier still shows through (an element of a container being overwritten, a state object kept by value and '
                         're-assigned each cycle, std::swap, sort and erase all go through it; a user-declared copy assignment also replaces the move assignment)' % ', '.join(sorted({l_[0] for l_ in lost})),
                         fx.rel(g['loc']), 'E-STATE')
          elif lost:
              R.violated('H3', inst, 'the user-provided copy constructor does not hand over %s (it is left as %s); functions this property reads use that member, so a copy of a configured / filled object does not '
                         'answer like the original (a std::vector of estimators, a pool, a by-value capture all go through it; a user-declared copy constructor also replaces the move)' % (
                             ', '.join(sorted({l_[0] for l_ in lost})), (lost[0][1] or ['default-initialised'])[0][:80]), fx.rel(g['loc']), 'E-STATE')
          else:
              R.holds('H3', inst, 'every member the read functions use (%s) is taken from the source object' % ', '.join(sorted(read)), fx.rel(g['loc']), 'E-STATE')
    # ---- H8: a member derived from another member in the constructor and not refreshed when that member is re-assigned -------------------------
    for cls in classes:
        ctors = [g for g in fx.functions.values() if g.get('ctor') and g.get('cls') == cls and not g.get('copyctor')]
        for g in ctors:
            by_param = {}          # member initialised directly from a parameter -> parameter id
            for i in g.get('inits', []):
                if i.get('field') and i.get('e') is not None:
                    e0 = strip_casts(i['e'])
                    while e0.get('k') == 'Construct' and len(e0.get('args', [])) == 1:        # copy construction from the parameter
                        e0 = strip_casts(e0['args'][0])
                    if e0.get('k') == 'Ref' and e0.get('rk') == 'param':
                        by_param[i['field']] = e0.get('id')
            for i in g.get('inits', []):
                if not i.get('field') or i.get('e') is None or i['field'] in by_param:
                    continue
                srcs = set()
                for y in walk(i['e']):
                    if isinstance(y, dict) and y.get('k') == 'Ref' and y.get('rk') == 'param':
                        srcs |= {m_ for m_, pid in by_param.items() if pid == y.get('id')}
                    if isinstance(y, dict) and y.get('k') == 'Member' and y.get('field') and y.get('cls') == cls and y.get('name') in by_param:
                        srcs.add(y['name'])
                # only derived values (a call / member access on the source), not plain copies of another parameter
                derived = any(isinstance(y, dict) and (y.get('k') in ('MCall', 'Call', 'Member') or (y.get('k') in ('Bin', 'Op') and y.get('op') in ('+', '-', '*', '/'))) for y in walk(i['e']))
                if not srcs or not derived:
                    continue
                D = i['field']
                for S_ in sorted(srcs):
                    setters = []
                    for h in fx.functions.values():
                        if h.get('cls') != cls or h.get('ctor') or h.get('body') is None:
                            continue
                        st_ = stores_in(h['body'])
                        names_ = {bm['name'] for (bm, _) in st_ if bm.get('cls') == cls}
                        touched = set(names_)
                        for y in walk(h['body']):        # a mutating library call on the member (resize, setConstant, clear ...) refreshes it too
                            if isinstance(y, dict) and y.get('k') == 'MCall' and not y.get('mconst') and not y.get('inrepo'):
                                bm_ = base_member(y.get('obj'))
                                if bm_ is not None and bm_.get('cls') == cls:
                                    touched.add(bm_['name'])
                        if S_ in names_ and D not in touched:
                            setters.append(h['name'])
                    used = any(isinstance(y, dict) and y.get('k') == 'Member' and y.get('name') == D and y.get('cls') == cls for f_ in fns if f_.get('cls') == cls and not f_.get('ctor') for y in walk(f_.get('body')))
                    inst = '%s:derived-member:%s' % (cls, D)
                    if setters and used:
                        R.violated('H8', inst, 'the constructor derives `%s` from `%s` (`%s`), but %s() re-assigns `%s` without refreshing `%s`: after that call the object keeps using the value derived from the '
                                   'OLD %s (or from nothing, for a default-constructed object that is configured afterwards)' % (D, S_, pp(i['e'])[:80], setters[0], S_, D, S_), fx.rel(g['loc']), 'E-STATE')
                    elif used:
                        R.holds('H8', inst, 'derived from %s, which no method re-assigns without it' % S_, fx.rel(g['loc']), 'E-STATE')
    # ---- H13: a by-reference parameter read after a stored value of its type, which an accessor hands out by reference, has been given another value (argument aliasing) --------
    # (the rule C14 Y6 was written for, over every class this property reads; C14 keeps its own instance names)
    if getattr(R, 'prop', None) != 'C14':
        from .props import C14 as _c14

        class _Fwd:
            def __init__(self, R_):
                self.R = R_

            def violated(self, rule, inst, msg, *a, **k):
                self.R.violated('H13', inst, msg.replace('caster.', 'object.'), *a, **k)

            def holds(self, rule, inst, *a, **k):
                self.R.holds('H13', inst, *a, **k)

            def undecided(self, rule, inst, *a, **k):
                pass                      # classes without by-reference value parameters / reference accessors are simply not concerned
        for cls in classes:
            if cls in fx.records and not cls.startswith('romea::core::RayCasting<'):
                try:
                    _c14.check_parameter_aliasing(fx, _Fwd(R), cls, cls.split('::')[-1])
                except Exception:
                    pass
    # ---- H12: a reference member bound to ANOTHER MEMBER of the same object, in a class whose copy constructor is the implicit one: the copy's reference still points into the original -----------
    for cls in classes:
        rec = fx.records.get(cls) or {}
        ref_fields = {fl_['name'] for fl_ in rec.get('fields', []) if (fl_.get('t') or {}).get('ref') or (fl_.get('t') or {}).get('s', '').rstrip().endswith('&')}
        if not ref_fields:
            continue
        copy = [m_ for m_ in rec.get('methods', []) if m_.get('copyctor')]
        user_copy = any(not m_.get('implicit') and not m_.get('deleted') for m_ in copy)
        deleted = bool(copy) and all(m_.get('deleted') for m_ in copy)
        for g in [g for g in fx.functions.values() if g.get('ctor') and g.get('cls') == cls and not g.get('copyctor')]:
            for i in g.get('inits', []):
                if i.get('field') not in ref_fields or i.get('e') is None:
                    continue
                own = [y for y in walk(i['e']) if isinstance(y, dict) and y.get('k') == 'Member' and y.get('field') and y.get('cls') == cls]
                inst = '%s:self-bound-reference:%s' % (cls, i['field'])
                if not own:
                    continue
                used = any(isinstance(y, dict) and y.get('k') == 'Member' and y.get('name') == i['field'] and y.get('cls') == cls for f_ in fns if f_.get('cls') == cls and not f_.get('ctor') for y in walk(f_.get('body')))
                if not used:
                    continue
                if deleted:
                    R.holds('H12', inst, 'bound to %s of the same object; the class cannot be copied' % own[0]['name'], fx.rel(g['loc']), 'E-STATE')
                elif user_copy:
                    R.undecided('H12', inst, 'reference member bound to %s of the same object; the user-provided copy constructor is not followed' % own[0]['name'])
                else:
                    R.violated('H12', inst, '`%s` is a reference member bound in the constructor to `%s`, a member of the SAME object, and the copy constructor is the compiler-generated one: it copies the reference, so in a '
                               'copy (a worker built from a prototype, an element of a vector of estimators, a by-value capture) `%s` still refers to the ORIGINAL object\'s %s - the copy computes with its own %s and '
                               'reads the results of the original: what it returns is not a function of its own inputs' % (i['field'], pp(i['e'])[:70], i['field'], own[0]['name'], own[0]['name']),
                               fx.rel(g['loc']), 'E-STATE')
    # ---- H12 (closures): a std::function member given a lambda that captures `this`, in a class whose copy operations are the compiler-generated ones: the copy's closure still calls into the original --
    for cls in classes:
        rec = fx.records.get(cls) or {}
        fn_fields = {fl_['name'] for fl_ in rec.get('fields', []) if (fl_.get('t') or {}).get('s', '').replace('mutable ', '').startswith('std::function<')}
        if not fn_fields:
            continue
        copy = [m_ for m_ in rec.get('methods', []) if m_.get('copyctor')]
        user_copy = any(not m_.get('implicit') and not m_.get('deleted') for m_ in copy)
        deleted = bool(copy) and all(m_.get('deleted') for m_ in copy)
        for g in [g for g in fx.functions.values() if g.get('cls') == cls and g.get('body') is not None and not g.get('copyctor')]:
            sites = [(i_['field'], i_['e']) for i_ in g.get('inits', []) if i_.get('field') in fn_fields and i_.get('e') is not None] + \
                    [(bm['name'], rhs) for (bm, rhs) in stores_in(g['body']) if bm.get('cls') == cls and bm.get('name') in fn_fields]
            for (fld_, e_) in sites:
                lam = next((y for y in walk(e_) if isinstance(y, dict) and y.get('k') == 'Lambda' and y.get('captures_this')), None)
                if lam is None:
                    continue
                used = any(isinstance(y, dict) and y.get('k') == 'Member' and y.get('name') == fld_ and y.get('cls') == cls for f_ in fns if f_.get('cls') == cls and not f_.get('ctor') for y in walk(f_.get('body')))
                inst = '%s:closure-bound-to-this:%s' % (cls, fld_)
                if not used:
                    continue
                if deleted:
                    R.holds('H12', inst, 'the closure captures this; the class cannot be copied', fx.rel(g['loc']), 'E-STATE')
                elif user_copy:
                    R.undecided('H12', inst, 'a closure that captures this is stored in `%s`; the user-provided copy constructor is not followed' % fld_)
                else:
                    R.violated('H12', inst, '`%s` is a std::function member that %s() fills with a lambda capturing `this`, and the copy operations are the compiler-generated ones: they copy the closure as it is, so in a '
                               'copy (an element of a vector, a converter returned by value, a member re-assigned later) `%s` still calls into the ORIGINAL object - it reads the original\'s members at call time '
                               '(another ellipsoid once the original is re-assigned, freed memory once it is destroyed): what the copy returns is not a function of its own state and its argument' % (
                                   fld_, g['name'], fld_), fx.rel(lam.get('loc') or g['loc']), 'E-STATE')
    # ---- H12 (pointers): a pointer member (or table of pointers) set to the address of ANOTHER MEMBER of the same object - by a default member initialiser, a constructor or a method - in a class whose
    # copy operations are the compiler-generated ones: the copy's pointers still point into the original
    for cls in classes:
        rec = fx.records.get(cls) or {}
        ptr_fields = {fl_['name']: fl_ for fl_ in rec.get('fields', []) if '*' in (fl_.get('t') or {}).get('s', '') and not (fl_.get('t') or {}).get('s', '').startswith('std::')}
        if not ptr_fields:
            continue
        copy = [m_ for m_ in rec.get('methods', []) if m_.get('copyctor')]
        user_copy = any(not m_.get('implicit') and not m_.get('deleted') for m_ in copy)
        deleted = bool(copy) and all(m_.get('deleted') for m_ in copy)
        sites = [(n_, fl_['init'], (fl_['init'].get('loc') if isinstance(fl_['init'], dict) else None) or rec.get('loc'), 'its default member initialiser') for n_, fl_ in ptr_fields.items() if fl_.get('init') is not None]
        for g in [g for g in fx.functions.values() if g.get('cls') == cls and g.get('body') is not None and not g.get('copyctor')]:
            sites += [(i_['field'], i_['e'], g['loc'], 'the constructor') for i_ in g.get('inits', []) if i_.get('field') in ptr_fields and i_.get('e') is not None]
            sites += [(bm['name'], rhs, g['loc'], g['name'] + '()') for (bm, rhs) in stores_in(g['body']) if bm.get('cls') == cls and bm.get('name') in ptr_fields]
        done = set()
        for (fld_, e_, loc_, where_) in sites:
            own = [strip_casts(y['e']) for y in walk(e_) if isinstance(y, dict) and y.get('k') == 'Un' and y.get('op') == '&' and strip_casts(y['e']).get('k') == 'Member' and strip_casts(y['e']).get('field')
                   and strip_casts(y['e']).get('cls') == cls and strip_casts(strip_casts(y['e']).get('base') or {}).get('k') in ('This', None)]
            if not own or fld_ in done:
                continue
            used = any(isinstance(y, dict) and y.get('k') == 'Member' and y.get('name') == fld_ and y.get('cls') == cls for f_ in fns if f_.get('cls') == cls and not f_.get('ctor') for y in walk(f_.get('body')))
            if not used:
                continue
            done.add(fld_)
            inst = '%s:self-pointer:%s' % (cls, fld_)
            names_ = ', '.join(sorted({o_['name'] for o_ in own})[:4])
            if deleted:
                R.holds('H12', inst, 'points to %s of the same object; the class cannot be copied' % names_, fx.rel(loc_) if loc_ else None, 'E-STATE')
            elif user_copy:
                R.undecided('H12', inst, 'pointer member set to the address of %s of the same object; the user-provided copy constructor is not followed' % names_)
            else:
                R.violated('H12', inst, '`%s` is set by %s to the address of `%s`, member(s) of the SAME object, and the copy operations are the compiler-generated ones: they copy the pointer value, so in a copy '
                           '(assignment, an element of a vector, pass or return by value) `%s` still points into the ORIGINAL object - the functions that go through it read the original\'s %s (other angles once '
                           'the original is re-initialised, freed memory once it is destroyed) while the other accessors read the copy\'s own: the results of one object no longer agree with each other' % (
                               fld_, where_, names_, fld_, names_), fx.rel(loc_) if loc_ else None, 'E-STATE')
    # ---- H11: a member function this property reads that redefines, with the same signature, a NON-virtual member of a public base: through a base reference the base version runs --------
    for cls in classes:
        rec = fx.records.get(cls) or {}
        read_names = {f['name'] for f in fns if f.get('cls') == cls}
        for bq in rec.get('bases') or []:
            brec = fx.records.get(bq)
            if not brec:
                continue
            bm = {(m_['name'], m_.get('sig')): m_ for m_ in brec['methods'] if not m_.get('ctor') and not m_['name'].startswith('~')}
            for m_ in rec.get('methods', []):
                if m_.get('ctor') or m_['name'].startswith('~') or m_.get('implicit') or m_['name'] not in read_names:
                    continue
                b_ = bm.get((m_['name'], m_.get('sig')))
                if b_ is None:
                    continue
                inst = '%s::%s:dispatch' % (cls, m_['name'])
                if b_.get('virtual'):
                    R.holds('H11', inst, 'overrides a virtual member of %s' % bq, None, 'E-SIB')
                else:
                    R.violated('H11', inst, '%s::%s redefines `%s` of its public base %s, where it is not virtual: the derived version only hides it, so the same object answers differently through a %s reference or '
                               'pointer (the base version runs, with the base\'s notion of the state) - what this property states about %s does not hold for that access path' % (
                                   cls, m_['name'], m_.get('sig'), bq, bq.split('<')[0].split('::')[-1], cls.split('::')[-1]), fx.rel(rec['loc']) if rec.get('loc') else None, 'E-SIB')
    # ---- H10: a member filled from an ARGUMENT under a condition that does not look at the argument, and used in its place afterwards ------------------------
    # `if (cache_.size() != n) cache_.assign(n, value);  ... use cache_ ...`: the first call decides the value for good; a later call with another argument silently uses the old one.
    for f in sorted(fns, key=lambda f: f['q']):
        cls = f.get('cls')
        if not cls or f.get('ctor') or f.get('body') is None or not f.get('params'):
            continue
        params = {p_['id']: p_['name'] for p_ in f['params']}
        for x in walk(f['body']):
            if not (isinstance(x, dict) and x.get('k') == 'If' and x.get('e') is None):
                continue
            cond_params = {y['id'] for y in walk(x['c']) if isinstance(y, dict) and y.get('k') == 'Ref' and y.get('id') in params}
            fills = []
            for y in walk(x.get('t')):
                if not isinstance(y, dict):
                    continue
                tgt, rhs_nodes = None, []
                if (y.get('k') == 'Bin' and y.get('op') == '=') or (y.get('k') == 'Op' and y.get('op') == '=' and len(y.get('args', [])) == 2):
                    l_, r_ = (y['l'], y['r']) if y.get('k') == 'Bin' else (y['args'][0], y['args'][1])
                    l0 = strip_casts(l_)
                    if l0.get('k') == 'Member' and l0.get('field') and l0.get('cls') == cls:
                        tgt, rhs_nodes = l0['name'], [r_]
                elif y.get('k') == 'MCall' and y.get('m') in ('assign', 'resize', 'setConstant', 'fill') and not y.get('inrepo'):
                    o0 = strip_casts(y.get('obj'))
                    if o0.get('k') == 'Member' and o0.get('field') and o0.get('cls') == cls:
                        tgt, rhs_nodes = o0['name'], list(y.get('args', []))
                if tgt is None:
                    continue
                used_p = {z['id'] for r_ in rhs_nodes for z in walk(r_) if isinstance(z, dict) and z.get('k') == 'Ref' and z.get('id') in params}
                # value parameters (references to values), not sizes that the condition itself checks
                used_p -= cond_params
                if used_p:
                    fills.append((tgt, used_p, y))
            for (tgt, used_p, node) in fills:
                cond_members = {y['name'] for y in walk(x['c']) if isinstance(y, dict) and y.get('k') == 'Member' and y.get('field') and y.get('cls') == cls}
                if tgt not in cond_members:
                    continue                      # the condition does not guard this member: not a cache idiom
                # the member is read after the If, and never assigned unconditionally in this function
                reads_after = False
                seen_if = False
                for y in walk(f['body']):
                    if y is x:
                        seen_if = True
                    if seen_if and isinstance(y, dict) and y.get('k') == 'Member' and y.get('name') == tgt and y.get('cls') == cls and not any(y is z for z in walk(x)):
                        reads_after = True
                uncond = False
                for blk in ([f['body']] if f['body'].get('k') == 'Compound' else []):
                    for top_ in blk['s']:
                        if top_ is x or any(top_ is z for z in [x]):
                            continue
                        if top_.get('k') == 'Expr':
                            e0 = strip_casts(top_['e'])
                            l0 = strip_casts(e0['l']) if e0.get('k') == 'Bin' and e0.get('op') == '=' else strip_casts(e0['args'][0]) if e0.get('k') == 'Op' and e0.get('op') == '=' and e0.get('args') else \
                                strip_casts(e0.get('obj')) if e0.get('k') == 'MCall' and e0.get('m') in ('assign', 'setConstant', 'fill') else None
                            if l0 is not None and l0.get('k') == 'Member' and l0.get('name') == tgt:
                                uncond = True
                inst = '%s:argument-cache:%s' % (f['q'].split('(')[0], tgt)
                if reads_after and not uncond:
                    pn = ', '.join(sorted(params[i_] for i_ in used_p))
                    R.violated('H10', inst, '`%s` is (re)filled from the argument `%s` only when `%s`, a condition that does not look at that argument, and is then used in its place: the FIRST call fixes the value; a later '
                               'call with another `%s` silently works with the old one, so the result depends on earlier calls and not only on this call\'s arguments' % (tgt, pn, pp(x['c'])[:90], pn),
                               fx.rel(x.get('loc') or f['loc']), 'E-PURE')
                else:
                    R.holds('H10', inst, 'filled from the argument under a condition, but refreshed unconditionally / not used afterwards', fx.rel(x.get('loc') or f['loc']), 'E-PURE')
    # ---- H9: a function of its arguments that hands out a reference to a member it has just written: the results of two calls are one object ----------
    for f in sorted(fns, key=lambda f: f['q']):
        rt = f.get('ret') or {}
        if f.get('ctor') or not f.get('cls') or f.get('body') is None or not f.get('params') or not (rt.get('ref') or rt.get('c') == 'ptr' or rt.get('s', '').rstrip().endswith(('&', '*'))):
            continue
        aliases = {}
        for y in walk(f['body']):
            if isinstance(y, dict) and y.get('k') == 'Decl':
                for v in y['vars']:
                    i0 = strip_casts(v.get('init')) if v.get('init') is not None else None
                    if (v.get('t') or {}).get('ref') and i0 is not None and i0.get('k') == 'Member' and i0.get('field') and i0.get('cls') == f['cls']:
                        aliases[v['id']] = i0['name']
        returned = set()
        for y in walk(f['body']):
            if isinstance(y, dict) and y.get('k') == 'Return' and y.get('e') is not None:
                e0 = strip_casts(y['e'])
                if e0.get('k') == 'Un' and e0.get('op') == '&':
                    e0 = strip_casts(e0['e'])
                if e0.get('k') == 'Member' and e0.get('field') and e0.get('cls') == f['cls']:
                    returned.add(e0['name'])
                elif e0.get('k') == 'Ref' and e0.get('id') in aliases:
                    returned.add(aliases[e0['id']])
        if not returned:
            continue
        pids = {p_['id'] for p_ in f['params']}
        # locals whose value comes from the parameters
        tainted = set(pids)
        for _ in range(3):
            for y in walk(f['body']):
                if isinstance(y, dict) and y.get('k') == 'Decl':
                    for v in y['vars']:
                        if v.get('init') is not None and any(isinstance(z, dict) and z.get('k') == 'Ref' and z.get('id') in tainted for z in walk(v['init'])):
                            tainted.add(v['id'])
        written = set()
        for y in walk(f['body']):
            if isinstance(y, dict) and ((y.get('k') == 'Bin' and y.get('op') in ('=', '+=', '-=', '*=', '/=')) or (y.get('k') == 'Op' and y.get('op') in ('=', '+=', '-=', '*=', '/=') and len(y.get('args', [])) == 2)):
                l_, r_ = (y['l'], y['r']) if y.get('k') == 'Bin' else (y['args'][0], y['args'][1])
                tgt = None
                bm = base_member(l_)
                if bm is not None and bm.get('cls') == f['cls']:
                    tgt = bm['name']
                else:
                    l0 = strip_casts(l_)
                    for _ in range(4):
                        if l0 is None:
                            break
                        if l0.get('k') == 'Ref' and l0.get('id') in aliases:
                            tgt = aliases[l0['id']]
                            break
                        l0 = strip_casts(l0['args'][0]) if l0.get('k') == 'Op' and l0.get('args') else strip_casts(l0.get('obj')) if l0.get('k') == 'MCall' else None
                if tgt in returned and any(isinstance(z, dict) and z.get('k') == 'Ref' and z.get('id') in tainted for z in walk(r_)):
                    written.add(tgt)
            # comma initialiser: member << a, b, ...;
            if isinstance(y, dict) and y.get('k') == 'Op' and y.get('op') == ',' and len(y.get('args', [])) == 2:
                n_ = y
                while isinstance(n_, dict) and n_.get('k') == 'Op' and n_.get('op') == ',' and len(n_.get('args', [])) == 2:
                    n_ = strip_casts(n_['args'][0])
                if isinstance(n_, dict) and n_.get('k') == 'Op' and n_.get('op') == '<<' and len(n_.get('args', [])) == 2:
                    bm = base_member(n_['args'][0])
                    if bm is not None and bm.get('cls') == f['cls'] and bm['name'] in returned and any(isinstance(z, dict) and z.get('k') == 'Ref' and z.get('id') in tainted for z in walk(y)):
                        written.add(bm['name'])
        inst = '%s:returns-member-buffer' % f['q']
        if written:
            R.violated('H9', inst, '%s() computes its result from its arguments into the member `%s` and returns a REFERENCE to it: the results of two calls on one object are the same object, so a result a caller '
                       'still holds (bound to a const reference, or both operands of one expression such as f(a) - f(b)) silently becomes the result of the later call - the value obtained for an input '
                       'is not a function of that input' % (f['name'], sorted(written)[0]), fx.rel(f['loc']), 'E-STATE')
        else:
            R.holds('H9', inst, 'returns a reference to a member it does not compute from its arguments in this call', fx.rel(f['loc']), 'E-STATE')
    # ---- H7: a member used as the accumulator of a loop without being reset in the same call ---------------------------------------------
    RESET_METHODS = ('setZero', 'setConstant', 'fill', 'clear', 'setIdentity', 'setOnes', 'assign', 'resize')
    for f in sorted(fns, key=lambda f: f['q']):
        if f.get('ctor') or not f.get('cls') or f.get('body') is None or f['body'].get('k') != 'Compound':
            continue
        top = f['body']['s']
        for li, L in enumerate(top):
            if L.get('k') not in ('For', 'While', 'RangeFor', 'Do'):
                continue
            accs = {}
            for y in walk(L.get('b')):
                if isinstance(y, dict) and ((y.get('k') == 'Bin' and y.get('op') in ('+=', '-=')) or (y.get('k') == 'Op' and y.get('op') in ('+=', '-=') and len(y.get('args', [])) == 2)):
                    l_ = y['l'] if y.get('k') == 'Bin' else y['args'][0]
                    l0 = strip_casts(l_)
                    # whole-member accumulation only (M += ..., M.noalias() += ...), not element updates M(i, j) += ...
                    while l0.get('k') == 'MCall' and l0.get('m') in ('noalias', 'array', 'matrix'):
                        l0 = strip_casts(l0['obj'])
                    if l0.get('k') == 'Member' and l0.get('field') and l0.get('cls') == f['cls']:
                        accs[l0['name']] = y
            for name, node in accs.items():
                def resets(x):
                    for y in walk(x):
                        if not isinstance(y, dict):
                            continue
                        if (y.get('k') == 'Bin' and y.get('op') == '=') or (y.get('k') == 'Op' and y.get('op') == '=' and len(y.get('args', [])) == 2):
                            l0 = strip_casts(y['l'] if y.get('k') == 'Bin' else y['args'][0])
                            while l0.get('k') == 'MCall' and l0.get('m') in ('noalias', 'array', 'matrix'):
                                l0 = strip_casts(l0['obj'])
                            if l0.get('k') == 'Member' and l0.get('name') == name:
                                return True
                        if y.get('k') == 'MCall' and y.get('m') in RESET_METHODS and strip_casts(y.get('obj') or {}).get('k') == 'Member' and strip_casts(y['obj']).get('name') == name:
                            return True
                    return False
                before = any(resets(x) for x in top[:li] if x.get('k') != 'If') or (L.get('init') is not None and resets(L['init']))
                cond_reset = any(resets(x) for x in top[:li] if x.get('k') == 'If')
                inst = '%s:loop-accumulator:%s' % (f['q'].split('(')[0], name)
                if before:
                    R.holds('H7', inst, 'the member is reset in this call before the loop that accumulates into it', fx.rel(L.get('loc') or f['loc']), 'E-STATE')
                elif cond_reset:
                    R.undecided('H7', inst, 'the member is reset only under a condition before the loop that accumulates into it')
                else:
                    R.violated('H7', inst, 'the loop accumulates into the member `%s` (`%s`) and nothing in %s() resets it first: the sum starts from whatever the previous call on this object left there, so the '
                               'result depends on the calls made before (a fresh object is right, a re-used one is not)' % (name, pp(node)[:80], f['name']), fx.rel(node.get('loc') or f['loc']), 'E-STATE')
    # ---- H6: configuration held by reference ---------------------------------------------------------------------------------------
    # a data member of reference type bound, in a constructor, to a `const T &` parameter: the call site reads as passing a value (temporaries
    # bind to it), but the object keeps using the caller's object - whatever it holds later, or nothing at all once it is gone
    for cls in classes:
        rec = fx.records.get(cls) or {}
        refs = [fl_ for fl_ in rec.get('fields', []) if (fl_.get('t') or {}).get('ref')]
        for fl_ in refs:
            for g in fx.functions.values():
                if not (g.get('ctor') and g.get('cls') == cls and not g.get('copyctor')):
                    continue
                for i in g.get('inits', []):
                    if i.get('field') != fl_['name'] or i.get('e') is None:
                        continue
                    e0 = strip_casts(i['e'])
                    if e0.get('k') == 'Ref' and e0.get('rk') == 'param':
                        p_ = next((p for p in g.get('params', []) if p['id'] == e0.get('id')), None)
                        tname = (p_['t'].get('s') or '').replace('const ', '').replace(' &', '').strip() if p_ is not None else ''
                        trec = fx.records.get(tname) or fx.records.get('romea::core::' + tname)
                        small_value = trec is not None and trec.get('fields') and len(trec['fields']) <= 16 and all((fl2.get('t') or {}).get('c') in ('int', 'fp', 'bool', 'enum') for fl2 in trec['fields'])
                        if p_ is not None and p_['t'].get('ref') and p_['t'].get('const') and not small_value:
                            # a non-owning view of a container / large object is a design choice (adaptors over point sets); only a small value
                            # object (a handful of numbers that configure the computation) has no reason to be held by reference
                            R.holds('H6', '%s:reference-member:%s' % (cls, fl_['name']), 'non-owning view of `%s` (%s), not a small configuration value' % (p_['name'], tname[:60]), fx.rel(g['loc']), 'E-STATE')
                            continue
                        if p_ is not None and p_['t'].get('ref') and p_['t'].get('const'):
                            R.violated('H6', '%s:reference-member:%s' % (cls, fl_['name']), 'the member `%s` is a reference bound to the constructor parameter `%s` (%s): the object does not own that value. A '
                                       'caller that passes a temporary leaves it dangling at once, and a caller that re-uses or re-assigns its variable changes the behaviour of the object built from it - '
                                       'the results then are not those of the value the object was constructed with, which is what the property quantifies over' % (
                                           fl_['name'], p_['name'], p_['t'].get('s')), fx.rel(g['loc']), 'E-STATE')
    # ---- H4: caches kept in mutable members ---------------------------------------------------------------------------------
    # `if (<cache member is empty>) cache = f(fields of the same object)`: the cache is validated by presence only.  When a field it was computed
    # from can change afterwards (public data member, or a member some non-constructor method writes), the stale cache is used for the new value.
    mutable_of = {}
    for q_, rec in fx.records.items():
        for fl_ in rec.get('fields', []):
            if fl_.get('mutable'):
                mutable_of.setdefault(q_, set()).add(fl_['name'])
    if mutable_of:
        writers = {}        # (class, field) -> non-constructor functions that assign it
        for g in fx.functions.values():
            if g.get('body') is None or g.get('ctor'):
                continue
            for y in walk(g['body']):
                if isinstance(y, dict) and ((y.get('k') == 'Bin' and y.get('op') in ('=', '+=', '-=', '*=', '/=')) or (y.get('k') == 'Op' and y.get('op') in ('=', '+=', '-=', '*=', '/='))):
                    l_ = strip_casts(y['l'] if y.get('k') == 'Bin' else y['args'][0])
                    if l_.get('k') == 'Member' and l_.get('field'):
                        writers.setdefault((l_.get('cls'), l_.get('name')), set()).add(g['q'])
        for f in sorted(fns, key=lambda f: f['q']):
            for x in walk(f.get('body')):
                if not (isinstance(x, dict) and x.get('k') == 'If'):
                    continue
                cms = [y for y in walk(x['c']) if isinstance(y, dict) and y.get('k') == 'Member' and y.get('name') in mutable_of.get(y.get('cls'), ())]
                others = [y for y in walk(x['c']) if isinstance(y, dict) and y.get('k') == 'Member' and y.get('field') and y not in cms]
                if len(cms) != 1 or others:
                    continue
                cm = cms[0]
                stores = [y for y in walk(x.get('t')) if isinstance(y, dict) and ((y.get('k') == 'Bin' and y.get('op') == '=') or (y.get('k') == 'Op' and y.get('op') == '=' and len(y.get('args', [])) == 2))]
                for y in stores:
                    l_, r_ = (y['l'], y['r']) if y.get('k') == 'Bin' else (y['args'][0], y['args'][1])
                    l_ = strip_casts(l_)
                    if not (l_.get('k') == 'Member' and l_.get('name') == cm['name'] and l_.get('cls') == cm.get('cls')):
                        continue
                    srcs = sorted({z['name'] for z in walk(r_) if isinstance(z, dict) and z.get('k') == 'Member' and z.get('field') and z.get('cls') == cm.get('cls') and z['name'] != cm['name']})
                    rec = fx.records.get(cm.get('cls')) or {}
                    acc = {fl_['name']: fl_.get('access') for fl_ in rec.get('fields', [])}
                    changeable = [n_ for n_ in srcs if acc.get(n_) == 0 or [w_ for w_ in writers.get((cm.get('cls'), n_), ()) if w_ != f['q']]]
                    inst = '%s:mutable-cache:%s' % (f['q'].split('(')[0], cm['name'])
                    if changeable:
                        R.violated('H4', inst, '`%s` is filled from %s when `%s` and re-used afterwards whenever it is present; %s can change after that (%s), and nothing compares the cached value with the '
                                   'current one: the function then answers for the OLD %s - its result is not a function of the value it is given' % (
                                       cm['name'], ', '.join(srcs), pp(x['c'])[:80], ', '.join(changeable),
                                       'public data member' if acc.get(changeable[0]) == 0 else 'written by ' + sorted(writers.get((cm.get('cls'), changeable[0]), ['?']))[0].split('(')[0],
                                       ', '.join(changeable)), fx.rel(x.get('loc') or f['loc']), 'E-PURE')
                    elif srcs:
                        R.holds('H4', inst, 'cache of %s, which nothing but the constructors writes' % ', '.join(srcs), fx.rel(x.get('loc') or f['loc']), 'E-PURE')
    # ---- H5: a member cache keyed on the argument only -------------------------------------------------------------------------
    # `if (arg != key_) { key_ = arg; cached_ = g(arg, other members) }  ... use cached_`: the cached value is refreshed only when the argument changes.
    # When g also reads a member that another method of the class writes, the same argument after that call gets the value of the old state.
    all_writers = {}
    for g in fx.functions.values():
        if g.get('body') is None or g.get('ctor') or not g.get('cls'):
            continue
        for (bm, _) in stores_in(g['body']):
            all_writers.setdefault((bm.get('cls'), bm.get('name')), set()).add(g['q'])
    for f in sorted(fns, key=lambda f: f['q']):
        cls = f.get('cls')
        if not cls or f.get('ctor') or f.get('body') is None:
            continue
        pids = {p['id'] for p in f.get('params', [])}
        for _ in range(3):          # locals initialised from the parameters count as the argument
            for y in walk(f['body']):
                if isinstance(y, dict) and y.get('k') == 'Decl':
                    for v in y['vars']:
                        if v.get('init') is not None and any(isinstance(z, dict) and z.get('k') == 'Ref' and z.get('id') in pids for z in walk(v['init'])):
                            pids.add(v['id'])
        for x in walk(f['body']):
            if not (isinstance(x, dict) and x.get('k') == 'If'):
                continue
            c = strip_casts(x['c'])
            fuzzy = None
            neg = False
            while c.get('k') == 'Un' and c.get('op') == '!':
                neg = not neg
                c = strip_casts(c['e'])
            if c.get('k') == 'MCall' and c.get('m') in ('isApprox', 'isMuchSmallerThan', 'isApproxToConstant') and c.get('args'):
                fuzzy = c['m']
                sides = (c['obj'], c['args'][0])
                op = '!=' if neg else '=='
            elif c.get('k') == 'Call' and (c.get('fn') or '').split('<')[0].split('::')[-1] in ('near', 'isApprox', 'almostEqual', 'isNear') and len(c.get('args', [])) >= 2:
                fuzzy = (c.get('fn') or '').split('<')[0].split('::')[-1]
                sides = (c['args'][0], c['args'][1])
                op = '!=' if neg else '=='
            elif c.get('k') == 'Bin' and c.get('op') in ('<', '<=') and strip_casts(c['l']).get('k') in ('Call', 'MCall') and \
                    ((strip_casts(c['l']).get('fn') or strip_casts(c['l']).get('m') or '').split('<')[0].split('::')[-1] in ('abs', 'fabs', 'norm', 'cwiseAbs')) and \
                    any(isinstance(y, dict) and y.get('k') == 'Bin' and y.get('op') == '-' for y in walk(c['l'])):
                # |argument - remembered| < tolerance
                d_ = next(y for y in walk(c['l']) if isinstance(y, dict) and y.get('k') == 'Bin' and y.get('op') == '-')
                fuzzy = 'within `%s` of' % pp(c['r'])[:40]
                sides = (d_['l'], d_['r'])
                op = '!=' if neg else '=='
            else:
                if neg:
                    continue
                op = c.get('op') if c.get('k') in ('Bin', 'Op') else None
                if op not in ('!=', '=='):
                    continue
                sides = (c['l'], c['r']) if c.get('k') == 'Bin' else tuple(c.get('args', [])[:2])
            if len(sides) != 2:
                continue
            key = next((base_member(s_) for s_ in sides if base_member(s_) is not None and base_member(s_).get('cls') == cls), None)
            has_param = any(isinstance(y, dict) and y.get('k') == 'Ref' and y.get('id') in pids for s_ in sides for y in walk(s_))
            if key is None or not has_param:
                continue
            miss = x.get('t') if op == '!=' else x.get('e')
            if miss is None:
                continue
            st_ = stores_in(miss)
            names_ = {bm['name'] for (bm, _) in st_ if bm.get('cls') == cls}
            if key['name'] not in names_ or len(names_) < 2:
                continue
            if fuzzy:
                others_ = sorted(names_ - {key['name']})
                R.violated('H5', '%s:fuzzy-key:%s' % (f['q'].split('(')[0], key['name']), '`%s` is re-used whenever the argument is %s the remembered `%s` (`%s`): that is a tolerance comparison%s, not equality, so a '
                           'DIFFERENT argument that is merely close is answered with the value computed for the previous one; the result depends on the call made before (two such arguments map to the same output: '
                           'the map is not one-to-one, and its inverse cannot return both)' % (', '.join(others_), fuzzy if fuzzy.startswith('within') else fuzzy + '() to', key['name'], pp(x['c'])[:90],
                                                                                               '' if fuzzy.startswith('within') else ' (relative precision 1e-5 in float, 1e-12 in double by default)'),
                           fx.rel(x.get('loc') or f['loc']), 'E-PURE')
                continue
            for (bm, rhs) in st_:
                if bm.get('cls') != cls or bm['name'] == key['name']:
                    continue
                deps = member_reads(rhs, cls) - names_
                stale = {o_: sorted(w_ for w_ in all_writers.get((cls, o_), ()) if w_ != f['q']) for o_ in deps}
                stale = {o_: w_ for o_, w_ in stale.items() if w_}
                inst = '%s:keyed-cache:%s' % (f['q'].split('(')[0], bm['name'])
                if stale:
                    o_ = sorted(stale)[0]
                    R.violated('H5', inst, '`%s` is recomputed only when the argument differs from `%s` (`%s`), but it is computed from %s too, which %s changes: after that call the SAME argument is answered with the '
                               'value computed for the old %s - the result depends on which arguments were used before, not only on the object\'s state and the argument' % (
                                   bm['name'], key['name'], pp(x['c'])[:80], ', '.join(sorted(stale)), stale[o_][0].split('(')[0].split('::')[-1] + '()', o_), fx.rel(x.get('loc') or f['loc']), 'E-PURE')
                elif deps:
                    R.holds('H5', inst, 'cache keyed on the argument; the other members it is computed from (%s) are written by no other method' % ', '.join(sorted(deps)), fx.rel(x.get('loc') or f['loc']), 'E-PURE')
    # H5, hit-return form: `if (valid_ && arg.x == key_.x && ...) return cached_;  key_ = arg; cached_ = g(arg, other members); valid_ = true; return cached_;`
    writes_of = {}
    for (cls_n, name_n), qs in all_writers.items():
        for q_ in qs:
            writes_of.setdefault(q_, set()).add((cls_n, name_n))

    def conjuncts(c):
        c = strip_casts(c)
        if c.get('k') == 'Bin' and c.get('op') == '&&':
            return conjuncts(c['l']) + conjuncts(c['r'])
        if c.get('k') == 'Paren' and c.get('e') is not None:
            return conjuncts(c['e'])
        return [c]
    for f in sorted(fns, key=lambda f: f['q']):
        cls = f.get('cls')
        if not cls or f.get('ctor') or f.get('body') is None or not f.get('params'):
            continue
        pids = {p['id'] for p in f.get('params', [])}
        for blk in walk(f['body']):
            if not (isinstance(blk, dict) and blk.get('k') == 'Compound'):
                continue
            for i_, x in enumerate(blk['s']):
                if not (x.get('k') == 'If' and x.get('e') is None and any(isinstance(y, dict) and y.get('k') == 'Return' for y in walk(x.get('t')))):
                    continue
                keys, flags = set(), set()
                fuzzy_hit = None
                for cj in conjuncts(x['c']):
                    # tolerance comparison of the argument with a remembered member: |arg - key_| < tol in any spelling (abs, norm, squaredNorm, maxCoeff ...), isApprox(), near()
                    fz = None
                    cj0 = cj
                    if cj0.get('k') == 'Bin' and cj0.get('op') in ('<', '<='):
                        for d_ in walk(cj0['l']):
                            if isinstance(d_, dict) and ((d_.get('k') == 'Bin' and d_.get('op') == '-') or (d_.get('k') == 'Op' and d_.get('op') == '-' and len(d_.get('args', [])) == 2)):
                                sd = (d_['l'], d_['r']) if d_.get('k') == 'Bin' else tuple(d_['args'])
                                mem_ = [base_member(s_) for s_ in sd if base_member(s_) is not None and base_member(s_).get('cls') == cls]
                                par_ = any(isinstance(y, dict) and y.get('k') == 'Ref' and y.get('id') in pids for s_ in sd for y in walk(s_))
                                if mem_ and par_:
                                    fz = (mem_[0]['name'], 'within `%s` of' % pp(cj0['r'])[:40])
                    elif cj0.get('k') == 'MCall' and cj0.get('m') in ('isApprox', 'isMuchSmallerThan') and cj0.get('args'):
                        sd = (cj0['obj'], cj0['args'][0])
                        mem_ = [base_member(s_) for s_ in sd if base_member(s_) is not None and base_member(s_).get('cls') == cls]
                        if mem_ and any(isinstance(y, dict) and y.get('k') == 'Ref' and y.get('id') in pids for s_ in sd for y in walk(s_)):
                            fz = (mem_[0]['name'], cj0['m'] + '() to')
                    if fz:
                        keys.add(fz[0])
                        fuzzy_hit = fuzzy_hit or (fz[0], fz[1], cj0)
                        continue
                    if cj.get('k') in ('Bin', 'Op') and cj.get('op') == '==':
                        sides = (cj['l'], cj['r']) if cj.get('k') == 'Bin' else tuple(cj.get('args', [])[:2])
                        mem = [y for s_ in sides for y in walk(s_) if isinstance(y, dict) and y.get('k') == 'Member' and y.get('field') and y.get('cls') == cls]
                        par = any(isinstance(y, dict) and y.get('k') == 'Ref' and y.get('id') in pids for s_ in sides for y in walk(s_))
                        if mem and par:
                            keys.add(mem[0]['name'])
                    else:
                        for y in walk(cj):
                            if isinstance(y, dict) and y.get('k') == 'Member' and y.get('field') and y.get('cls') == cls:
                                flags.add(y['name'])
                if not keys:
                    continue
                miss = {'k': 'Compound', 's': blk['s'][i_ + 1:]}
                st_ = stores_in(miss)
                names_ = {bm['name'] for (bm, _) in st_ if bm.get('cls') == cls}
                if not (keys & names_) or len(names_) < 2:
                    continue
                guard_members = names_ | keys | flags
                if fuzzy_hit:
                    others_ = sorted(names_ - keys - flags)
                    R.violated('H5', '%s:fuzzy-key:%s' % (f['q'].split('(')[0], fuzzy_hit[0]), 'the remembered result (%s) is returned again whenever the argument is %s the remembered `%s` (`%s`): a tolerance '
                               'comparison, not equality, so a DIFFERENT argument inside the tolerance is answered with the result computed for another one - the result depends on the call made before; for a map that '
                               'must be inverted to the accuracy of the property (or whose tolerance is compared with another power of the distance than intended) the two points come back as one' % (
                                   ', '.join(others_) or 'the stored result', fuzzy_hit[1], fuzzy_hit[0], pp(x['c'])[:100]), fx.rel(x.get('loc') or f['loc']), 'E-PURE')
                    continue
                for (bm, rhs) in st_:
                    if bm.get('cls') != cls or bm['name'] in keys or bm['name'] in flags:
                        continue
                    deps = member_reads(rhs, cls) - names_
                    stale = {}
                    for o_ in deps:
                        ws = [w_ for w_ in all_writers.get((cls, o_), ()) if w_ != f['q'] and not any((cls, gm_) in writes_of.get(w_, ()) for gm_ in guard_members)]
                        if ws:
                            stale[o_] = sorted(ws)
                    inst = '%s:keyed-cache:%s' % (f['q'].split('(')[0], bm['name'])
                    if stale:
                        o_ = sorted(stale)[0]
                        R.violated('H5', inst, '`%s` is returned again whenever the argument equals the remembered `%s` (`%s`), but it was computed from %s too, which %s changes without invalidating the remembered '
                                   'result: after that call the SAME argument is answered with the value computed for the old %s - the result depends on the calls made before, not only on the object\'s state and '
                                   'the argument' % (bm['name'], ', '.join(sorted(keys)), pp(x['c'])[:110], ', '.join(sorted(stale)), stale[o_][0].split('(')[0].split('::')[-1] + '()', o_),
                                   fx.rel(x.get('loc') or f['loc']), 'E-PURE')
                    elif deps:
                        R.holds('H5', inst, 'result remembered per argument; every method that writes what it is computed from (%s) also invalidates it' % ', '.join(sorted(deps)), fx.rel(x.get('loc') or f['loc']), 'E-PURE')
    # ---- H14: same-value shortcut of a (re)configuring method -------------------------------------------------------------------
    # `void setX(v) { if (x_ == v) return; x_ = v; a_ = f(v); b_ = g(v); }`: calling setX with the value it already has used to put a_, b_ back to their initial state for that value; with the
    # shortcut it no longer does when ANOTHER method has changed a_ or b_ in between - the object then differs from a fresh one configured the same way
    for f in sorted(fns, key=lambda f: f['q']):
        cls = f.get('cls')
        if not cls or f.get('ctor') or f.get('body') is None or not f.get('params') or f['body'].get('k') != 'Compound':
            continue
        if (f.get('ret') or {}).get('s', 'void') != 'void':
            continue
        pids = {p_['id'] for p_ in f['params']}
        top = f['body']['s']
        for i_, x in enumerate(top):
            if x.get('k') in ('Expr',) and not stores_in(x):
                continue                                 # asserts and the like
            if not (x.get('k') == 'If' and x.get('e') is None and any(isinstance(y, dict) and y.get('k') == 'Return' for y in walk(x.get('t'))) and not stores_in(x.get('t'))):
                break
            keys = set()
            for cj in conjuncts(x['c']):
                if cj.get('k') in ('Bin', 'Op') and cj.get('op') == '==':
                    sides = (cj['l'], cj['r']) if cj.get('k') == 'Bin' else tuple(cj.get('args', [])[:2])
                    mem = [base_member(s_) for s_ in sides if base_member(s_) is not None and base_member(s_).get('cls') == cls]
                    par = any(isinstance(y, dict) and y.get('k') == 'Ref' and y.get('id') in pids for s_ in sides for y in walk(s_))
                    if mem and par:
                        keys.add(mem[0]['name'])
            if not keys:
                break
            rest = {'k': 'Compound', 's': top[i_ + 1:]}
            st_ = stores_in(rest)
            written = {bm['name'] for (bm, _) in st_ if bm.get('cls') == cls}
            if not (keys & written):
                break
            foreign = {}
            for nm_ in sorted(written - keys):
                ws = sorted(w_ for w_ in all_writers.get((cls, nm_), ()) if w_ != f['q'])
                if ws:
                    foreign[nm_] = ws
            inst = '%s:same-value-shortcut' % f['q'].split('(')[0]
            if foreign:
                nm_ = sorted(foreign)[0]
                R.violated('H14', inst, '%s() returns at once when its argument equals the stored `%s` (`%s`); past that test it also re-initialises %s, which other methods change (%s).  Calling it with the value it already has '
                           'used to bring the object back to the state of a fresh one configured with that value; now what %s left behind stays - the next result depends on the calls made before this one, not on '
                           'the configuration and the current problem alone' % (f['name'], ', '.join(sorted(keys)), pp(x['c'])[:80], ', '.join(sorted(foreign)),
                                                                                '; '.join('%s: %s' % (k_, ', '.join(sorted({w_.split('(')[0].split('::')[-1] + '()' for w_ in v_})[:3])) for k_, v_ in sorted(foreign.items())[:3]),
                                                                                foreign[nm_][0].split('(')[0].split('::')[-1] + '()'),
                           fx.rel(x.get('loc') or f['loc']), 'E-STATE')
            elif written - keys:
                R.holds('H14', inst, 'same-value shortcut; everything re-initialised past it (%s) is written by no other method' % ', '.join(sorted(written - keys)), fx.rel(x.get('loc') or f['loc']), 'E-STATE')
            break
    # ---- H16: work skipped because the ARGUMENT OBJECT is the one seen last time (identity key) -----------------------------------------------
    # `if (&points == last_ && points.size() == n_) return;  last_ = &points; ... results computed from the elements of points ...`: the key is the address (and at most the size) of a by-reference
    # argument.  The elements of a container can change while its address and size stay the same (a cloud moved in place between two registrations, another set allocated where the old one was), so the
    # stored results are those of other contents - the answer is not a function of the argument the property quantifies over
    for f in sorted(fns, key=lambda f: f['q']):
        cls = f.get('cls')
        if not cls or f.get('ctor') or f.get('body') is None or not f.get('params') or f['body'].get('k') != 'Compound':
            continue
        pids = {p_['id']: p_ for p_ in f['params'] if (p_.get('t') or {}).get('ref') or (p_.get('t') or {}).get('s', '').rstrip().endswith('&')}
        if not pids:
            continue
        top = f['body']['s']
        for i_, x in enumerate(top):
            if x.get('k') == 'Decl' or (x.get('k') == 'Expr' and not stores_in(x)):
                continue
            if not (x.get('k') == 'If' and x.get('e') is None and any(isinstance(y, dict) and y.get('k') == 'Return' for y in walk(x.get('t'))) and not stores_in(x.get('t'))):
                break
            ident, content, par_id = None, False, None
            for cj in conjuncts(x['c']):
                sides = None
                if cj.get('k') in ('Bin', 'Op') and cj.get('op') == '==':
                    sides = (cj['l'], cj['r']) if cj.get('k') == 'Bin' else tuple(cj.get('args', [])[:2])
                addr = None
                if sides:
                    for a_, b_ in (sides, sides[::-1]):
                        a0 = strip_casts(a_)
                        if a0.get('k') == 'Un' and a0.get('op') == '&' and strip_casts(a0['e']).get('k') == 'Ref' and strip_casts(a0['e']).get('id') in pids and base_member(b_) is not None \
                                and base_member(b_).get('cls') == cls:
                            addr = (strip_casts(a0['e'])['id'], base_member(b_)['name'])
                if addr:
                    ident, par_id = addr[1], addr[0]
                    continue
                # any other conjunct: reading the argument beyond size()/empty() is a look at its contents
                for y in walk(cj):
                    if isinstance(y, dict) and y.get('k') == 'Ref' and y.get('id') in pids:
                        content = content or not any(isinstance(z, dict) and z.get('k') == 'MCall' and z.get('m') in ('size', 'empty', 'rows', 'cols') and strip_casts(z.get('obj') or {}) is y
                                                     or (isinstance(z, dict) and z.get('k') == 'MCall' and z.get('m') in ('size', 'empty', 'rows', 'cols') and strip_casts(z.get('obj') or {}).get('id') == y.get('id'))
                                                     for z in walk(cj))
            if ident is None:
                break
            rest = {'k': 'Compound', 's': top[i_ + 1:]}
            reads_elems = any(isinstance(y, dict) and ((y.get('k') == 'Op' and y.get('op') in ('[]', '()') and y.get('args') and strip_casts(y['args'][0]).get('id') == par_id)
                                                        or (y.get('k') == 'RangeFor' and any(isinstance(z, dict) and z.get('k') == 'Ref' and z.get('id') == par_id for z in walk(y.get('range') or y.get('r') or {})))
                                                        or (y.get('k') in ('MCall',) and y.get('m') in ('begin', 'end', 'cbegin', 'cend', 'front', 'back', 'at', 'data') and strip_casts(y.get('obj') or {}).get('id') == par_id)
                                                        or (y.get('k') in ('Call', 'MCall') and y.get('inrepo') and any(strip_casts(a_).get('id') == par_id for a_ in y.get('args', []))))
                              for y in walk(rest))
            inst = '%s:identity-keyed-skip:%s' % (f['q'].split('(')[0], ident)
            pname = pids[par_id]['name']
            if content:
                R.undecided('H16', inst, '%s() skips its work when the argument object is the one remembered in `%s` and a further condition looks at its contents; that condition is not judged' % (f['name'], ident))
            elif reads_elems:
                R.violated('H16', inst, '%s() returns at once when `%s` (`%s` remembers the ADDRESS of the argument of the previous call); past that test it computes its results from the elements of `%s`.  The elements '
                           'of a container change while its address and size stay the same (points moved in place between two calls, another set of the same size allocated where the old one was): the second call '
                           'then keeps the results of the first contents - what the object reports is not a function of the argument' % (f['name'], pp(x['c'])[:110], ident, pname), fx.rel(x.get('loc') or f['loc']), 'E-PURE')
            else:
                R.holds('H16', inst, 'identity-keyed shortcut; the work it skips does not read the elements of `%s`' % pname, fx.rel(x.get('loc') or f['loc']), 'E-PURE')
            break
    # ---- H15: a member refreshed on demand under a pending flag ------------------------------------------------------------------
    # `if (!upToDate_) { m_ = g(source_); upToDate_ = true; } ... use m_` in a query Q, with other methods marking the refresh pending.  A method W that stores m_ directly (it knows the right value for
    # the problem it just solved) without touching the flag leaves a pending refresh armed: the next Q overwrites W's value with g(source_), computed from what the method that armed the flag left
    for f in sorted(fns, key=lambda f: f['q']):
        cls = f.get('cls')
        if not cls or f.get('ctor') or f.get('body') is None:
            continue
        for x in walk(f['body']):
            if not (isinstance(x, dict) and x.get('k') == 'If' and x.get('t') is not None):
                continue
            c_ = strip_casts(x['c'])
            neg = False
            while c_.get('k') in ('Un', 'Paren'):
                if c_.get('k') == 'Un':
                    if c_.get('op') != '!':
                        break
                    neg = not neg
                c_ = strip_casts(c_['e'])
            if c_.get('k') in ('Bin', 'Op') and c_.get('op') in ('==', '!='):
                sides = (c_['l'], c_['r']) if c_.get('k') == 'Bin' else tuple(c_.get('args', [])[:2])
                lit = [const_value(s_) for s_ in sides]
                memb = [strip_casts(s_) for s_ in sides if const_value(s_) is None]
                if len(memb) != 1 or not any(isinstance(v_, bool) or v_ in (0, 1) for v_ in lit if v_ is not None):
                    continue
                v_ = bool([v_ for v_ in lit if v_ is not None][0])
                neg = neg != ((c_['op'] == '==') != v_)
                c_ = memb[0]
            if not (c_.get('k') == 'Member' and c_.get('field') and c_.get('cls') == cls and (c_.get('t') or {}).get('s', '').replace('const ', '') in ('bool', '_Bool')):
                continue
            flag = c_['name']
            pending = not neg                      # value of the flag for which the refresh runs
            st_ = stores_in(x['t'])
            clears = [r_ for (bm, r_) in st_ if bm.get('cls') == cls and bm['name'] == flag and const_value(r_) is not None and bool(const_value(r_)) != pending]
            refreshed = sorted({bm['name'] for (bm, _) in st_ if bm.get('cls') == cls and bm['name'] != flag})
            if not clears or not refreshed or any(isinstance(y, dict) and y.get('k') == 'Return' for y in walk(x['t'])):
                continue
            armers = sorted(g['q'] for g in fx.functions.values() if g.get('cls') == cls and g.get('body') is not None and not g.get('ctor') and g['q'] != f['q']
                            and any(bm.get('cls') == cls and bm['name'] == flag and const_value(r_) is not None and bool(const_value(r_)) == pending for (bm, r_) in stores_in(g['body'])))
            if not armers:
                continue
            for m_ in refreshed:
                inst = '%s:refresh-on-demand:%s' % (f['q'].split('(')[0], m_)
                direct = sorted(w_ for w_ in all_writers.get((cls, m_), ()) if w_ != f['q'] and (cls, flag) not in writes_of.get(w_, ()))
                if direct:
                    R.violated('H15', inst, '%s() refreshes `%s` on demand when `%s` is %s (`if (%s)`), and %s arms that flag.  %s stores `%s` itself - the value for the problem it has just solved - and leaves the flag as it '
                               'is: after %s then %s, the next %s() finds the refresh still pending and overwrites `%s` with the value rebuilt from what %s left, i.e. the answer to an EARLIER problem.  The result '
                               'depends on the sequence of calls, not on the current problem alone' % (
                                   f['name'], m_, flag, str(pending).lower(), pp(x['c'])[:60], ', '.join(a_.split('(')[0].split('::')[-1] + '()' for a_ in armers[:3]), direct[0].split('(')[0].split('::')[-1] + '()', m_,
                                   armers[0].split('(')[0].split('::')[-1] + '()', direct[0].split('(')[0].split('::')[-1] + '()', f['name'], m_, armers[0].split('(')[0].split('::')[-1] + '()'),
                               fx.rel(x.get('loc') or f['loc']), 'E-STATE')
                else:
                    R.holds('H15', inst, '`%s` refreshed on demand under `%s`; every other method that stores it also sets the flag' % (m_, flag), fx.rel(x.get('loc') or f['loc']), 'E-STATE')
            # the members the refreshed value is computed from: a method that changes one of them must arm the flag, or the next query hands out the value refreshed BEFORE the change
            sources = sorted({y['name'] for (bm, r_) in st_ if bm.get('cls') == cls and bm['name'] != flag for y in walk(r_)
                              if isinstance(y, dict) and y.get('k') == 'Member' and y.get('field') and y.get('cls') == cls and y['name'] != flag and y['name'] not in refreshed})
            for src_ in sources:
                lazy_ = []
                for g in sorted(fx.functions.values(), key=lambda g: g['q']):
                    if g.get('cls') != cls or g.get('body') is None or g.get('ctor') or g['q'] == f['q'] or (cls, flag) in writes_of.get(g['q'], ()):
                        continue
                    mut = any(bm.get('cls') == cls and bm['name'] == src_ for (bm, _) in stores_in(g['body']))
                    how = 'stores `%s`' % src_
                    if not mut:
                        for y in walk(g['body']):
                            if isinstance(y, dict) and y.get('k') == 'MCall' and y.get('inrepo') and y.get('fk'):
                                ob_ = base_member(y.get('obj'))
                                cal_ = fx.functions.get(y['fk'])
                                if ob_ is not None and ob_.get('cls') == cls and ob_['name'] == src_ and cal_ is not None and not cal_.get('const') and not cal_.get('static'):
                                    # the call counts when what it (transitively) stores meets what the refresh reads of the source object
                                    scls = cal_.get('cls')
                                    wr_, seen_, todo_ = set(), set(), [cal_]
                                    while todo_ and len(seen_) < 40:
                                        c0_ = todo_.pop()
                                        if c0_['q'] in seen_ or c0_.get('body') is None:
                                            continue
                                        seen_.add(c0_['q'])
                                        wr_ |= {bm['name'] for (bm, _) in stores_in(c0_['body']) if bm.get('cls') == scls}
                                        todo_ += [fx.functions[z['fk']] for z in walk(c0_['body']) if isinstance(z, dict) and z.get('inrepo') and z.get('fk') in fx.functions and fx.functions[z['fk']].get('cls') == scls]
                                    rd_ = set()
                                    for (bm2, r2_) in st_:
                                        for z in walk(r2_):
                                            if isinstance(z, dict) and z.get('k') == 'MCall' and z.get('inrepo') and z.get('fk') in fx.functions and base_member(z.get('obj')) is not None \
                                                    and base_member(z.get('obj'))['name'] == src_ and fx.functions[z['fk']].get('body') is not None:
                                                rd_ |= member_reads(fx.functions[z['fk']]['body'], scls)
                                    if rd_ and wr_ and not (rd_ & wr_):
                                        continue                      # changes a part of the source the refreshed value is not computed from
                                    mut = True
                                    how = 'calls %s.%s(), which is not const%s' % (src_, y.get('m'), (' and stores ' + ', '.join(sorted(rd_ & wr_)[:3]) + ', which the refresh reads') if rd_ & wr_ else '')
                                    break
                    if mut:
                        lazy_.append((g, how))
                inst = '%s:refresh-on-demand:source:%s' % (f['q'].split('(')[0], src_)
                if lazy_:
                    g, how = lazy_[0]
                    R.violated('H15', inst, '%s() hands out `%s`, refreshed from `%s` only when `%s` is %s.  %s() %s and leaves the flag alone: after %s() (which refreshes and clears the flag) and then %s(), the next '
                               '%s() still returns the value copied BEFORE the change - the answer of an earlier state of the object, not of the events it has seen' % (
                                   f['name'], ', '.join(refreshed), src_, flag, str(pending).lower(), g['name'], how, f['name'], g['name'], f['name']), fx.rel(g['loc']), 'E-STATE')
                else:
                    R.holds('H15', inst, 'every method that changes `%s` arms `%s`' % (src_, flag), fx.rel(x.get('loc') or f['loc']), 'E-STATE')
    # ---- H2: single precision inside a double computation -----------------------------------------------------------------
    prec = PRECISION.get(getattr(R, 'prop', None))
    if prec is not None:
        n_found = 0
        for f in sorted(fns, key=lambda f: f['q']):
            for (kind, text, loc) in narrowings(f):
                n_found += 1
                if n_found > 4:
                    break
                R.violated('H2', '%s:single-precision:%s' % (f['q'].split('(')[0], (loc or '').split('/')[-1]), 'in %s %s (`%s`): single precision carries a relative error of %.0e, the property demands %.1e (%s) '
                           'of the double instantiations - results that look right at the 1e-7 level are outside the statement' % (f['q'].split('(')[0], kind, text, FLOAT_SPACING, prec[0], prec[1]),
                           fx.rel(loc or f['loc']), 'E-INT')
        if not n_found:
            R.holds('H2', 'precision sweep', 'no double value passes through single precision in the %d function bodies read (non-float instantiations)' % len(fns), None, 'E-INT')
    R.holds('H1', 'hidden-state sweep', '%d function bodies (the ones this check read and their in-repo callees): %d function-local static(s)' % (len(fns), found), None, 'E-PURE')
