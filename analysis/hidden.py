"""H1: hidden state in the functions a property check read (and in the in-repo functions they call, transitively).

Every rule of a property reads functions as functions of their arguments and of *this.  A function-local `static` breaks that reading:
  * `static const T x = <expression of the parameters / of *this>`  is evaluated once per process, by whichever call comes first; every later
    call - other arguments, another object - re-uses that value.  The property modules quantify over arguments and objects, so this is
    reported as a violation, naming the variable and what its initialiser reads.
  * a non-const static is state that survives the call; the E-PURE engine decides it where a property module asked for it; elsewhere the
    function is not a function of its arguments as far as this analysis knows: UNDECIDED, never a pass.
A static whose initialiser reads nothing of the call (tables, constants) is not state."""
from .tree import walk, pp


def per_call_reads(init):
    out = []
    for y in walk(init):
        if y.get('k') == 'This':
            out.append('*this')
        elif y.get('k') == 'Ref' and y.get('rk') in ('param', 'local') and 'cv' not in y:
            out.append(y.get('name'))
    return sorted(set(out))


def closure(fx, roots):
    seen, todo = {}, list(roots)
    while todo:
        f = todo.pop()
        if f is None or f.get('key') in seen or f.get('body') is None:
            continue
        seen[f['key']] = f
        for y in walk(f['body']):
            if y.get('inrepo') and y.get('fk'):
                g = fx.functions.get(y['fk'])
                if g is not None and g.get('key') not in seen:
                    todo.append(g)
    return list(seen.values())


def sweep(fx, R):
    roots = [f for q in sorted(R.analysed) for f in fx.by_q.get(q, [])]
    fns = closure(fx, roots)
    handled = set(R.extra.get('epure_functions', []))
    found = 0
    reported = set()
    for f in sorted(fns, key=lambda f: f['q']):
        for x in walk(f['body']):
            if x.get('k') != 'Decl':
                continue
            for v in x['vars']:
                if not v.get('static') and not v.get('tls'):
                    continue
                found += 1
                name = '%s:static:%s' % (f['q'].split('(')[0], v['name'])
                if name in reported:
                    continue
                reported.add(name)
                if v['t'].get('const'):
                    reads = per_call_reads(v.get('init')) if v.get('init') is not None else []
                    if reads:
                        R.violated('H1', name, '`static const %s = %s` is initialised once per process, by whichever call comes first, from %s; every later call - with other arguments or on another object - '
                                   're-uses that first value, so the result is not a function of the arguments and of the object the property quantifies over' % (
                                       v['name'], pp(v['init'])[:120], ', '.join(reads)), fx.rel(v.get('loc') or x.get('loc') or f['loc']), 'E-PURE')
                    else:
                        R.holds('H1', name, 'constant table / value: the initialiser reads nothing of the call', fx.rel(f['loc']), 'E-PURE')
                elif f['key'] in handled:
                    R.holds('H1', name, 'decided by the static-cache rule (E-PURE) of this property', fx.rel(f['loc']), 'E-PURE')
                else:
                    R.undecided('H1', name, 'the function keeps state across calls in the non-const static `%s`; its results were read as functions of the arguments only' % v['name'])
    R.holds('H1', 'hidden-state sweep', '%d function bodies (the ones this check read and their in-repo callees): %d function-local static(s)' % (len(fns), found), None, 'E-PURE')
