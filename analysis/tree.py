"""Helpers over the exported statement/expression trees (plain dicts, see tools/romea_facts.cc)."""

EXPR_CHILD_KEYS = ('l', 'r', 'e', 'c', 'a', 'b', 'obj', 'base', 'idx')


def children(n):
    """Direct sub-nodes (expressions and statements) of a node, in evaluation/source order."""
    if n is None:
        return
    k = n.get('k')
    if k in ('Compound',):
        for s in n['s']:
            yield s
        return
    if k == 'If':
        yield n['c']
        if n.get('t'): yield n['t']
        if n.get('e'): yield n['e']
        return
    if k == 'For':
        for key in ('init', 'c', 'inc', 'b'):
            if n.get(key): yield n[key]
        return
    if k in ('While', 'Do'):
        yield n['c']
        if n.get('b'): yield n['b']
        return
    if k == 'RangeFor':
        yield n['range']
        if n.get('b'): yield n['b']
        return
    if k == 'Decl':
        for v in n['vars']:
            if v.get('init'): yield v['init']
        return
    if k in ('Switch',):
        yield n['c']
        if n.get('b'): yield n['b']
        return
    if k in ('Case', 'Default', 'Try'):
        if n.get('v'): yield n['v']
        if n.get('b'): yield n['b']
        return
    if k == 'Lambda':
        if n.get('body'): yield n['body']
        return
    if k == 'Return' or k == 'Expr':
        if n.get('e'): yield n['e']
        return
    for key in EXPR_CHILD_KEYS:
        v = n.get(key)
        if isinstance(v, dict):
            yield v
    for a in n.get('args', ()) or ():
        if isinstance(a, dict):
            yield a


def walk(n):
    """Pre-order traversal of every node below (and including) n."""
    if n is None:
        return
    stack = [n]
    while stack:
        x = stack.pop()
        yield x
        ch = list(children(x))
        stack.extend(reversed(ch))


def strip(e):
    """Drop casts / default-arg wrappers / copy-move constructions that do not change the denoted object."""
    while e is not None:
        k = e.get('k')
        if k == 'Cast':
            e = e['e']
        elif k == 'DefaultArg':
            e = e['e']
        elif k == 'Construct' and e.get('ctor') in ('copy', 'move') and len(e.get('args', [])) == 1:
            e = e['args'][0]
        else:
            break
    return e


def strip_casts(e):
    while e is not None and e.get('k') in ('Cast', 'DefaultArg'):
        e = e['e']
    return e


def pp(e):
    """Canonical printable form of an expression (used in reports and for sibling comparison)."""
    if e is None:
        return '∅'
    k = e['k']
    if k == 'Bin':
        return '(%s %s %s)' % (pp(e['l']), e['op'], pp(e['r']))
    if k == 'Un':
        return '(%s%s)' % (pp(e['e']), e['op']) if e.get('postfix') else '(%s%s)' % (e['op'], pp(e['e']))
    if k == 'Cond':
        return '(%s ? %s : %s)' % (pp(e['c']), pp(e['a']), pp(e['b']))
    if k == 'Op':
        a = e['args']
        op = e['op']
        if op == '()' and a:
            return '%s(%s)' % (pp(a[0]), ', '.join(pp(x) for x in a[1:]))
        if op == '[]' and len(a) == 2:
            return '%s[%s]' % (pp(a[0]), pp(a[1]))
        if len(a) == 2:
            return '(%s %s %s)' % (pp(a[0]), op, pp(a[1]))
        if len(a) == 1:
            return '(%s%s)' % (op, pp(a[0]))
        return 'op%s(%s)' % (op, ', '.join(pp(x) for x in a))
    if k == 'MCall':
        return '%s.%s(%s)' % (pp(e['obj']), e.get('m'), ', '.join(pp(a) for a in e['args']))
    if k == 'Call':
        return '%s(%s)' % (short_fn(e.get('fn')), ', '.join(pp(a) for a in e['args']))
    if k == 'Member':
        return '%s.%s' % (pp(e['base']), e['name'])
    if k == 'Ref':
        return e.get('q') or e['name']
    if k == 'This':
        return 'this'
    if k in ('Int', 'Float', 'Bool'):
        return repr(e.get('v'))
    if k == 'Str':
        return repr(e.get('v'))
    if k == 'Cast':
        if e.get('implicit'):
            return pp(e['e'])
        return '(%s)(%s)' % (e['t']['s'], pp(e['e']))
    if k == 'Construct':
        if e.get('ctor') in ('copy', 'move') and len(e.get('args', [])) == 1:
            return pp(e['args'][0])
        return '%s{%s}' % (short_fn(e['cls']), ', '.join(pp(a) for a in e.get('args', [])))
    if k == 'DefaultArg':
        return pp(e['e'])
    if k == 'Index':
        return '%s[%s]' % (pp(e['base']), pp(e['idx']))
    if k == 'InitList':
        return '{%s}' % ', '.join(pp(a) for a in e['args'])
    if k == 'ValueInit':
        return '{}'
    if k == 'Lambda':
        return '<lambda>'
    return '?%s(%s)' % (e.get('cls', k), ', '.join(pp(a) for a in e.get('args', []) or []))


def short_fn(q):
    if not q:
        return '?'
    return q.replace('romea::core::', '').replace('(anonymous namespace)::', '')


def const_value(e):
    """Constant-evaluator value of an expression if Clang could fold it, else None."""
    if e is None:
        return None
    if 'cv' in e:
        return e['cv']
    k = e.get('k')
    if k in ('Int', 'Float', 'Bool'):
        return e.get('v')
    if k in ('Cast', 'DefaultArg'):
        return const_value(e['e'])
    return None


def is_member_of_this(e, name=None):
    e = strip_casts(e)
    if e is None or e.get('k') != 'Member':
        return False
    b = strip_casts(e['base'])
    if b is None or b.get('k') != 'This':
        return False
    return name is None or e['name'] == name


def member_path(e):
    """('this','a','b') for this->a.b ; ('local:<id>', ...) for locals; None otherwise."""
    e = strip_casts(e)
    if e is None:
        return None
    k = e['k']
    if k == 'This':
        return ('this',)
    if k == 'Member' and e.get('field'):
        b = member_path(e['base'])
        return b + (e['name'],) if b else None
    if k == 'Ref' and e.get('rk') in ('local', 'param'):
        return ('%s:%s' % (e['rk'], e['id']),)
    if k == 'Un' and e['op'] == '*':
        return member_path(e['e'])
    return None


def stmts(body):
    """Flat list of the statements of a Compound (or a single statement)."""
    if body is None:
        return []
    if body['k'] == 'Compound':
        return body['s']
    return [body]


def calls(n, name=None):
    """All call-like nodes (Call/MCall/Op/Construct) below n, optionally filtered by simple callee name."""
    for x in walk(n):
        if x.get('k') in ('Call', 'MCall', 'Op', 'Construct'):
            if name is None or x.get('m') == name or (x.get('fn') or '').split('::')[-1] == name:
                yield x


def refuse_reasons(fn):
    """Constructs the structured-dataflow engines do not model; their presence makes a rule UNDECIDED."""
    out = []
    for x in walk(fn.get('body')):
        k = x.get('k')
        if k == 'Unsupported':
            out.append('%s at %s' % (x.get('cls'), x.get('loc')))
        elif k in ('Switch', 'Try'):
            out.append('%s at %s' % (k, x.get('loc')))
    return out


def prune(n):
    """Copy of a statement tree in which every `if` whose condition the front end folded to a constant
    (e.g. `if (DIM == 2)` inside an instantiation) is replaced by its live arm."""
    if n is None:
        return None
    k = n.get('k')
    if k == 'Compound':
        out = []
        for s in n['s']:
            p = prune(s)
            if p is not None:
                out.append(p)
        m = dict(n)
        m['s'] = out
        return m
    if k == 'If':
        cv = const_value(n['c'])
        if cv is not None:
            return prune(n['t'] if cv else n.get('e'))
        m = dict(n)
        m['t'] = prune(n.get('t'))
        m['e'] = prune(n.get('e'))
        return m
    if k in ('For', 'While', 'Do', 'RangeFor'):
        m = dict(n)
        m['b'] = prune(n.get('b'))
        return m
    return n


ERASED_METHODS = {'array', 'matrix', 'eval', 'derived', 'noalias'}


_SX_DEPTH = [0]


def sx(e):
    """see _sx; a postfix ++/-- whose value is used (nested in a larger expression) is spelled 'p++'/'p--', everywhere else ++/-- are 'u++'/'u--'."""
    _SX_DEPTH[0] += 1
    try:
        return _sx(e)
    finally:
        _SX_DEPTH[0] -= 1


def _sx(e):
    """S-expression of an expression with Eigen view wrappers (.array(), .matrix(), .eval()) and casts erased:
    nested tuples ('op', args...), leaves are strings (names / this.field) or numbers."""
    e = strip(e)
    if e is None:
        return None
    k = e['k']
    if k == 'Bin':
        return (e['op'], sx(e['l']), sx(e['r']))
    if k == 'Un':
        if e.get('postfix') and e['op'] in ('++', '--') and _SX_DEPTH[0] > 1:
            return ('p' + e['op'], sx(e['e']))
        return ('u' + e['op'], sx(e['e']))
    if k == 'Cond':
        return ('?:', sx(e['c']), sx(e['a']), sx(e['b']))
    if k == 'Op':
        a = [sx(x) for x in e['args']]
        return (e['op'],) + tuple(a)
    if k == 'MCall':
        if e.get('m') in ERASED_METHODS and not e['args']:
            return sx(e['obj'])
        return ('.' + str(e.get('m')), sx(e['obj'])) + tuple(sx(a) for a in e['args'])
    if k == 'Call':
        fn = short_fn(e.get('fn'))
        fn = strip_trailing_targs(fn)
        return (fn,) + tuple(sx(a) for a in e['args'])
    if k == 'Member':
        b = sx(e['base'])
        return '%s.%s' % (b, e['name']) if isinstance(b, str) else ('.member:' + e['name'], b)
    if k == 'Ref':
        return e.get('q') or e['name']
    if k == 'This':
        return 'this'
    if k == 'Float':
        v = e.get('v')
        return float(v) if isinstance(v, int) and not isinstance(v, bool) else v        # a floating literal with an integral value stays a float (1000000000. is not an integer divisor)
    if k in ('Int', 'Bool', 'Str'):
        return e.get('v')
    if k == 'Construct':
        return ('new:' + short_fn(e['cls']),) + tuple(sx(a) for a in e.get('args', []))
    if k == 'InitList':
        return ('{}',) + tuple(sx(a) for a in e['args'])
    if k == 'Index':
        return ('[]', sx(e['base']), sx(e['idx']))
    return ('?' + str(e.get('cls', k)),) + tuple(sx(a) for a in (e.get('args') or []))


def strip_trailing_targs(fn):
    """'std::cbegin<std::list<X>>' -> 'std::cbegin' ; names not ending in a template-argument list are unchanged."""
    if not fn.endswith('>') or 'operator' in fn:
        return fn
    depth = 0
    for i in range(len(fn) - 1, -1, -1):
        if fn[i] == '>':
            depth += 1
        elif fn[i] == '<':
            depth -= 1
            if depth == 0:
                return fn[:i]
    return fn
