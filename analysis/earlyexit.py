"""Early exits under a tolerance test (shared by C04 V8, C11 K4, ...).

A path that leaves a function before its main computation is legitimate when its condition is exact (the degenerate input really is
the special case).  When the condition is a TOLERANCE test (isZero(), near(), |x| < constant) on a quantity whose scale the quantifier does not
bound, well-conditioned inputs of small magnitude take the shortcut too.  This module only finds and classifies such exits; the property
module states why the shortcut's result is wrong for them."""
from .tree import walk, pp, const_value, strip_casts

TOL_METHODS = ('isZero', 'isMuchSmallerThan', 'isApprox', 'isApproxToConstant', 'isConstant', 'isOnes', 'isIdentity')
TOL_FUNCTIONS = ('near', 'isApprox', 'almostEqual', 'isNear', 'fuzzyCompare', 'isZero')


def _machine_constant(e):
    """text of a std::numeric_limits<>::epsilon()/min() based constant (possibly scaled by a literal), else None"""
    e = strip_casts(e) if e is not None else None
    if e is None:
        return None
    if e.get('k') == 'Call' and 'numeric_limits' in (e.get('fn') or '') and (e.get('fn') or '').split('::')[-1] in ('epsilon', 'min', 'denorm_min'):
        return pp(e)
    if e.get('k') == 'Bin' and e.get('op') in ('*', '/'):
        l, r = _machine_constant(e.get('l')), _machine_constant(e.get('r'))
        if (l and const_value(e.get('r')) is not None) or (r and const_value(e.get('l')) is not None and e.get('op') == '*'):
            return pp(e)
    return None


NORM_LIKE = ('norm', 'squaredNorm', 'stableNorm', 'lpNorm', 'cwiseAbs', 'abs', 'maxCoeff', 'sum')


def _magnitude(e):
    """does e read as the magnitude of a data quantity: x.norm(), x.squaredNorm(), fabs(x), x.cwiseAbs().maxCoeff() ..."""
    e = strip_casts(e) if e is not None else None
    if e is None:
        return False
    if e.get('k') == 'MCall' and e.get('m') in NORM_LIKE:
        return True
    if e.get('k') == 'Call' and (e.get('fn') or '').split('::')[-1] in ('abs', 'fabs', 'hypot'):
        return True
    return False


def _scaled_constant(e):
    """a positive floating constant possibly multiplied by counts (sizes, integers): text, else None"""
    e = strip_casts(e) if e is not None else None
    if e is None:
        return None
    cv = const_value(e)
    if isinstance(cv, float) and cv > 0:
        return pp(e)
    if e.get('k') == 'Bin' and e.get('op') == '*':
        for a_, b_ in ((e.get('l'), e.get('r')), (e.get('r'), e.get('l'))):
            ca = const_value(a_)
            if (isinstance(ca, float) and ca > 0) or _machine_constant(a_):
                tb = ((strip_casts(b_) or {}).get('t') or {})
                if tb.get('c') == 'int' or const_value(b_) is not None:
                    return pp(e)
    return None


def _fp_const(node, cv):
    """a positive floating constant (a floating literal with an integral value is still a floating constant)"""
    if isinstance(cv, bool) or not isinstance(cv, (int, float)) or not cv > 0:
        return False
    if isinstance(cv, float) and cv != int(cv):
        return True
    n0 = strip_casts(node) if node is not None else {}
    return (n0.get('t') or {}).get('c') == 'fp' or n0.get('k') == 'Float'


def is_tolerance_test(cond):
    for y in walk(cond):
        if y.get('k') == 'Bin' and y.get('op') in ('<', '<=') and _magnitude(y.get('l')) and _scaled_constant(y.get('r')):
            return 'a comparison of a magnitude with the absolute constant %s' % _scaled_constant(y.get('r'))
        if y.get('k') == 'Bin' and y.get('op') in ('>', '>=') and _magnitude(y.get('r')) and _scaled_constant(y.get('l')):
            return 'a comparison of a magnitude with the absolute constant %s' % _scaled_constant(y.get('l'))
        if y.get('k') == 'Bin' and y.get('op') in ('<', '<=') and _machine_constant(y.get('r')):
            return 'a comparison with the absolute constant %s' % _machine_constant(y.get('r'))
        if y.get('k') == 'Bin' and y.get('op') in ('>', '>=') and _machine_constant(y.get('l')):
            return 'a comparison with the absolute constant %s' % _machine_constant(y.get('l'))
        if y.get('k') == 'MCall' and y.get('m') in TOL_METHODS:
            return 'the Eigen tolerance predicate %s()' % y['m']
        if y.get('k') == 'Call' and (y.get('fn') or '').split('<')[0].split('::')[-1] in TOL_FUNCTIONS:
            return 'the tolerance helper %s()' % (y.get('fn') or '').split('<')[0].split('::')[-1]
        if y.get('k') == 'Bin' and y.get('op') in ('<', '<='):
            cv = const_value(y.get('r'))
            if _fp_const(y.get('r'), cv):
                return 'a comparison with the absolute constant %g' % cv
        if y.get('k') == 'Bin' and y.get('op') in ('>', '>='):
            cv = const_value(y.get('l'))
            if _fp_const(y.get('l'), cv):
                return 'a comparison with the absolute constant %g' % cv
    return None


def exits_before(top, stop_index):
    """[(if node, condition text, tolerance kind or None)] for the top-level `if`s that contain a return, before statement stop_index"""
    out = []
    for x in top[:stop_index if stop_index is not None else len(top)]:
        if x.get('k') == 'If' and any(y.get('k') == 'Return' for y in walk(x.get('t'))):
            out.append((x, pp(x['c']), is_tolerance_test(x['c'])))
    return out
