"""Fact extraction driver: runs build/romea-facts over translation units of a source root
(default /repo) and merges the per-unit JSON.  Nothing is executed except the extractor
(a Clang front-end action).  Results are cached by content hash, so an edited file is
always re-parsed."""
import hashlib, json, os, re, subprocess, sys, time
from concurrent.futures import ThreadPoolExecutor

VERIF = os.path.dirname(os.path.dirname(os.path.abspath(__file__)))
TOOL = os.path.join(VERIF, 'build', 'romea-facts')
CACHE = os.path.join(VERIF, '.cache')
UNITS_DIR = os.path.join(VERIF, 'tools', 'units')
SELFTEST_DIR = os.path.join(VERIF, 'selftest')
FLAGS = ['-std=c++17', '-isystem', '/usr/include/eigen3', '-DNDEBUG', '-Wno-everything']


class ExtractionError(Exception):
    pass


def _sha(*parts):
    h = hashlib.sha256()
    for p in parts:
        h.update(p if isinstance(p, bytes) else str(p).encode())
        h.update(b'\0')
    return h.hexdigest()


def _file_hash(path):
    with open(path, 'rb') as f:
        return hashlib.sha256(f.read()).hexdigest()


_tree_hash_cache = {}


def include_hash(root):
    """Hash of every file under <root>/include (any header edit invalidates every unit)."""
    root = os.path.abspath(root)
    if root in _tree_hash_cache:
        return _tree_hash_cache[root]
    h = hashlib.sha256()
    inc = os.path.join(root, 'include')
    for d, dirs, files in sorted(os.walk(inc)):
        dirs.sort()
        for f in sorted(files):
            p = os.path.join(d, f)
            h.update(os.path.relpath(p, inc).encode())
            with open(p, 'rb') as fh:
                h.update(hashlib.sha256(fh.read()).digest())
    _tree_hash_cache[root] = h.hexdigest()
    return _tree_hash_cache[root]


def library_units(root):
    """The add_library() source list of <root>/CMakeLists.txt (what the build builds)."""
    txt = open(os.path.join(root, 'CMakeLists.txt')).read()
    m = re.search(r'add_library\s*\(\s*\$\{PROJECT_NAME\}\s+SHARED(.*?)\)', txt, re.S)
    if not m:
        raise ExtractionError('add_library(... SHARED ...) not found in CMakeLists.txt')
    units = [l.strip() for l in m.group(1).split() if l.strip().endswith('.cpp')]
    return units


def synthetic_unit(name):
    return os.path.join(UNITS_DIR, name)


def _extract_one(root, unit, extra_flags=()):
    root = os.path.abspath(root)
    path = unit if os.path.isabs(unit) else os.path.join(root, unit)
    if not os.path.exists(path):
        raise ExtractionError('unit vanished: %s' % unit)
    if not os.path.exists(TOOL):
        raise ExtractionError('extractor not built: run /verif/setup.sh')
    key = _sha(_file_hash(TOOL), root, unit, _file_hash(path), include_hash(root), ' '.join(FLAGS), ' '.join(extra_flags))
    os.makedirs(CACHE, exist_ok=True)
    out = os.path.join(CACHE, key + '.json')
    hit = os.path.exists(out)
    if not hit:
        tmp = out + '.%d.tmp' % os.getpid()
        cmd = [TOOL, '-o', tmp, '-root', root + '/,' + UNITS_DIR + '/,' + SELFTEST_DIR + '/', path, '--',
               '-I' + os.path.join(root, 'include')] + FLAGS + list(extra_flags)
        r = subprocess.run(cmd, stdout=subprocess.PIPE, stderr=subprocess.PIPE, text=True)
        if r.returncode != 0 or not os.path.exists(tmp):
            if os.path.exists(tmp):
                os.remove(tmp)
            raise ExtractionError('front end failed on %s:\n%s' % (unit, (r.stderr or r.stdout)[-2000:]))
        os.replace(tmp, out)
    with open(out) as f:
        d = json.load(f)
    if d.get('errors'):
        raise ExtractionError('front-end errors in %s' % unit)
    return unit, d, hit


class Facts:
    """Merged facts of several units.  Functions are keyed by 'qualified name|type'."""

    def __init__(self, root):
        self.root = os.path.abspath(root)
        self.functions = {}      # key -> fn
        self.by_q = {}           # qualified name -> [fn]
        self.records = {}        # qualified name -> record
        self.enums = {}
        self.units = []
        self.cache_hits = 0
        self.wall_s = 0.0

    def add(self, unit, d):
        self.units.append(unit)
        for f in d['functions']:
            k = f['key']
            old = self.functions.get(k)
            if old is not None and old.get('body') is not None:
                continue
            f['unit'] = unit
            self.functions[k] = f
        for r in d['records']:
            self.records.setdefault(r['q'], r)
        for e in d['enums']:
            self.enums.setdefault(e['q'], e)

    def finish(self):
        self.by_q = {}
        for f in self.functions.values():
            self.by_q.setdefault(f['q'], []).append(f)

    def rel(self, loc):
        if not loc:
            return loc
        if loc.startswith(self.root + '/'):
            return loc[len(self.root) + 1:]
        if loc.startswith(VERIF + '/'):
            return 'verif:' + loc[len(VERIF) + 1:]
        return loc

    def fn(self, q, sig_contains=None):
        """All function bodies with this qualified name (optionally filtered by a signature fragment)."""
        l = self.by_q.get(q, [])
        if sig_contains is not None:
            l = [f for f in l if sig_contains in f['sig']]
        return l

    def one(self, q, sig_contains=None):
        l = self.fn(q, sig_contains)
        if len(l) != 1:
            return None
        return l[0]

    def find(self, pattern):
        """Functions whose qualified name matches a regular expression (full match)."""
        rx = re.compile(pattern)
        return [f for f in self.functions.values() if rx.fullmatch(f['q'])]


def load(root, units, extra_flags=()):
    t0 = time.time()
    facts = Facts(root)
    units = list(dict.fromkeys(units))
    with ThreadPoolExecutor(max_workers=min(16, max(1, len(units)))) as ex:
        for unit, d, hit in ex.map(lambda u: _extract_one(root, u, extra_flags), units):
            facts.add(unit, d)
            facts.cache_hits += 1 if hit else 0
    facts.finish()
    facts.wall_s = time.time() - t0
    return facts


def all_units(root):
    return library_units(root) + sorted(
        os.path.join(UNITS_DIR, f) for f in os.listdir(UNITS_DIR) if f.endswith('.cpp'))
