"""E-ALG verdict discipline.  A residual that the simplifier reduces to 0 HOLDS.  A residual it cannot reduce is NOT yet a violation:
it is evaluated (exactly, then to 40 digits) on random rational witness points that respect the symbols' assumptions; a non-zero value
is a concrete counterexample of the identity (VIOLATED, the witness is reported); if it vanishes on every witness the simplifier
was too weak and the rule is UNDECIDED.  Nothing is ever rejected for its form."""
import random
import sympy as sp


def _samples(symbols, n, seed=20240607, domain=None):
    """domain: optional callable(symbol) -> (lo, hi) in hundredths (ints) or None: the quantifier's range for that symbol"""
    rnd = random.Random(seed)
    out = []
    for _ in range(n):
        env = {}
        for s in sorted(symbols, key=lambda x: x.name):
            rng = domain(s) if domain is not None else None
            if rng is not None:
                env[s] = sp.Rational(rnd.randint(int(rng[0]), int(rng[1])), 100)
                continue
            if s.is_integer:
                env[s] = sp.Integer(rnd.randint(1, 60) if s.is_nonnegative or s.is_positive else rnd.choice((1, 1, -1)) * rnd.randint(1, 60))
            elif s.is_positive or s.is_nonnegative:
                env[s] = sp.Rational(rnd.randint(10, 95), 100)
            else:
                env[s] = sp.Rational(rnd.randint(10, 125), 100) * rnd.choice((1, 1, -1))
        out.append(env)
    return out


BIG = 600      # operation count above which the simplifier is not attempted (it may run for a very long time)


def simp(expr):
    """sp.simplify with a size guard: big expressions (and matrices with a big entry) are returned as they are."""
    try:
        n = sum(sp.count_ops(e) for e in expr) if isinstance(expr, sp.MatrixBase) else sp.count_ops(expr)
    except Exception:
        return expr
    if n > BIG:
        return expr
    return sp.simplify(expr)


def decide_zero(expr, tries=6, domain=None):
    """('zero', None) | ('nonzero', witness env, value) | ('unknown', reason)."""
    if isinstance(expr, sp.MatrixBase):
        worst = ('zero', None)
        for e in expr:
            v = decide_zero(e, tries, domain)
            if v[0] == 'nonzero':
                return v
            if v[0] == 'unknown':
                worst = v
        return worst
    expr = sp.sympify(expr)
    if expr == 0:
        return ('zero', None)
    try:
        s = simp(expr)
    except Exception:
        s = expr
    if s == 0:
        return ('zero', None)
    s = interpret(s)
    if s.atoms(sp.core.function.AppliedUndef):
        return ('unknown', 'uninterpreted function in the residual')
    return _sample_zero(s, tries, domain)


def interpret(s):
    """uninterpreted functions of the reader: the ones with a known meaning get it, the others become fresh unknowns (sampled like symbols)"""
    for _ in range(4):
        fa = s.atoms(sp.core.function.AppliedUndef)
        if not fa:
            break
        rep = {}
        for a in fa:
            nm = str(a.func)
            if nm == 'trunc' and len(a.args) == 1:
                rep[a] = sp.sign(a.args[0]) * sp.floor(sp.Abs(a.args[0]))
            elif nm == 'idiv' and len(a.args) == 2:
                q_ = a.args[0] / a.args[1]
                rep[a] = sp.sign(q_) * sp.floor(sp.Abs(q_))
            elif nm == 'fmod' and len(a.args) == 2:
                q_ = a.args[0] / a.args[1]
                rep[a] = a.args[0] - a.args[1] * sp.sign(q_) * sp.floor(sp.Abs(q_))
            elif nm in ('remainder', 'remainderf', 'std::remainder') and len(a.args) == 2:
                # IEEE remainder: x - m * (x / m rounded to nearest)
                q_ = a.args[0] / a.args[1]
                rep[a] = a.args[0] - a.args[1] * sp.floor(q_ + sp.Rational(1, 2))
            elif nm == 'mod2pi' and len(a.args) == 1:
                rep[a] = a.args[0] - 2 * sp.pi * sp.floor(a.args[0] / (2 * sp.pi))
            elif not any(isinstance(x_, sp.core.function.AppliedUndef) for arg_ in a.args for x_ in sp.preorder_traversal(arg_)):
                rep[a] = sp.Symbol('fn:' + str(a), real=True)
        if not rep:
            break
        s = s.xreplace(rep)
    return s


def decide_zero_on_path(expr, conds, tries=24, domain=None):
    """decide_zero restricted to the witness points that satisfy a path condition: conds = [(sympy boolean, polarity)].
    ('zero' is never returned: this is a witness search) -> ('nonzero', env, value) | ('unknown', reason)"""
    if isinstance(expr, sp.MatrixBase):
        worst = ('unknown', 'vanishes on the witness points of the path')
        for e in expr:
            v = decide_zero_on_path(e, conds, tries, domain)
            if v[0] == 'nonzero':
                return v
            worst = v
        return worst
    s = interpret(sp.sympify(expr))
    cs = [(interpret(c), pol) for (c, pol) in conds if isinstance(c, sp.Basic)]
    if s.atoms(sp.core.function.AppliedUndef) or any(c.atoms(sp.core.function.AppliedUndef) for c, _ in cs):
        return ('unknown', 'uninterpreted function in the residual or the path condition')
    return _sample_zero(s, tries, domain, cs)


def _sample_zero(s, tries, domain, conds=()):
    syms = set(s.free_symbols)
    for c, _ in conds:
        syms |= c.free_symbols
    evaluated = 0
    for env in _samples(syms, tries, domain=domain):
        ok = True
        for (c, pol) in conds:
            try:
                cv = c.subs(env)
                if cv not in (sp.true, sp.false) and hasattr(cv, 'lhs'):
                    cv = cv.func(sp.N(cv.lhs, 40), sp.N(cv.rhs, 40))
            except Exception:
                cv = None
            if cv not in (sp.true, sp.false) or bool(cv) != pol:
                ok = False
                break
        if not ok:
            continue
        try:
            v = sp.N(s.subs(env), 40)
        except Exception:
            continue
        if not v.is_number or v.has(sp.nan, sp.zoo, sp.oo):
            continue
        if abs(sp.im(v)) > sp.Float('1e-25'):
            continue                       # outside the domain of the formula (sqrt/log of a negative sample)
        evaluated += 1
        if abs(v) > sp.Float('1e-25'):
            return ('nonzero', env, sp.N(v, 8))
    if evaluated >= 3:
        return ('unknown', 'the residual does not reduce symbolically but vanishes on %d random witness points (simplifier too weak, not a violation)' % evaluated)
    return ('unknown', 'the residual is not evaluable on witness points')


def witness_text(env):
    if not env:
        return 'every input (the residual is a constant)'
    return ', '.join('%s = %s' % (k, v) for k, v in sorted(env.items(), key=lambda kv: kv[0].name))[:300]


def check_zero(R, expr, rule, inst, what, detail, loc=None, engine='E-ALG', extra_ok=True, extra_what=None, domain=None):
    """HOLDS / VIOLATED (with witness) / UNDECIDED for `expr == 0`.  extra_ok: an additional exact side condition (False -> VIOLATED with extra_what)."""
    v = decide_zero(expr, domain=domain)
    if v[0] == 'zero':
        if extra_ok:
            R.holds(rule, inst, detail, loc, engine)
            return True
        R.violated(rule, inst, extra_what or what, loc, engine)
        return False
    if v[0] == 'nonzero':
        R.violated(rule, inst, '%s  [non-zero, e.g. %s at %s]' % (what, v[2], witness_text(v[1])), loc, engine)
        return False
    R.undecided(rule, inst, '%s: %s' % (what[:200], v[1]))
    return None


def numeric_fingerprint(expr, digits=6):
    """A deterministic numeric signature of an expression or matrix: its free symbols, sorted by name, take fixed irrational-looking values; the value is printed with `digits` significant digits."""
    import sympy as sp
    items = list(expr) if isinstance(expr, sp.MatrixBase) else [expr]
    syms = sorted({y for e in items if isinstance(e, sp.Basic) for y in e.free_symbols}, key=lambda y: y.name)
    import zlib
    sub = {y: sp.Float(0.31 + (zlib.crc32(y.name.encode()) % 100003) / 100003.0 * 1.1, 30) for y in syms}          # by NAME: exchanging two symbols changes the signature
    out = []
    for e in items:
        try:
            v = sp.N(e.subs(sub), 20) if isinstance(e, sp.Basic) else e
            out.append('%.*g' % (digits, float(v)) if getattr(v, 'is_real', False) or isinstance(v, (int, float)) else str(v)[:40])
        except Exception:
            out.append('?')
    return ','.join(out)
