"""Self-validation of the checkers (thorough tier, DESIGN.md section 8): every hand-written edit of selftest/mutants.json and every
confirmed seeded patch of the property is applied to a scratch copy of the source root (outside /repo and /verif, removed at once),
the property's rules are evaluated on the copy and must raise a VIOLATION of the expected rule.  An applied edit that is not detected
makes the check ANALYSIS-BROKEN (never a pass).  Nothing of the library is compiled to code or executed."""
import json, os, shutil, subprocess, tempfile
from concurrent.futures import ThreadPoolExecutor

VERIF = os.path.dirname(os.path.dirname(os.path.abspath(__file__)))
MUTANTS = os.path.join(VERIF, 'selftest', 'mutants.json')
SEEDED = os.path.join(VERIF, 'seeded')


def _scratch(root):
    tmp = tempfile.mkdtemp(prefix='romea-verif-selftest-')
    for sub in ('include', 'src'):
        shutil.copytree(os.path.join(root, sub), os.path.join(tmp, sub))
    shutil.copy(os.path.join(root, 'CMakeLists.txt'), tmp)
    return tmp


def _check(prop, tmp):
    c = subprocess.run(['python3-vt', os.path.join(VERIF, 'bin', 'check.py'), prop, '--root', tmp, '--no-evidence', '--json', '--tier', 'quick'],
                       stdout=subprocess.PIPE, stderr=subprocess.PIPE, text=True)
    try:
        return json.loads(c.stdout.strip().splitlines()[-1])
    except Exception:
        return {'code': c.returncode, 'violations': [], 'undecided': [{'rule': 'engine', 'instance': 'crash', 'reason': (c.stdout + c.stderr)[-400:]}]}


def _run_edit(prop, root, mut):
    tmp = _scratch(root)
    try:
        path = os.path.join(tmp, mut['file'])
        if not os.path.exists(path):
            return mut, 'skipped', 'file vanished'
        s = open(path).read()
        if s.count(mut['old']) < 1:
            return mut, 'skipped', 'anchor text vanished'
        s = s.replace(mut['old'], mut['new'], mut.get('count', 1))
        for (o2, n2) in mut.get('also', []):
            if s.count(o2) < 1:
                return mut, 'skipped', 'anchor text vanished'
            s = s.replace(o2, n2, 1)
        open(path, 'w').write(s)
        out = _check(prop, tmp)
        return mut, _judge(out, mut), out
    finally:
        shutil.rmtree(tmp, ignore_errors=True)


def _run_patch(prop, root, mid, expect):
    tmp = _scratch(root)
    try:
        r = subprocess.run(['patch', '-p1', '-s', '-i', os.path.join(SEEDED, mid, 'patch.diff')], cwd=tmp, stdout=subprocess.PIPE, stderr=subprocess.STDOUT, text=True)
        mut = {'name': 'seeded/' + mid, 'expect_rule': expect}
        if r.returncode != 0:
            return mut, 'skipped', 'patch does not apply'
        out = _check(prop, tmp)
        return mut, _judge(out, mut), out
    finally:
        shutil.rmtree(tmp, ignore_errors=True)


def _judge(out, mut):
    rules = {v['rule'] for v in out.get('violations', [])}
    if any(u['rule'] == 'extraction' for u in out.get('undecided', [])) and not (out.get('code') == 1 and mut.get('expect_rule') in rules):
        return 'uncompilable'
    if out.get('code') == 1 and (mut.get('expect_rule') is None or mut['expect_rule'] in rules):
        if mut.get('expect_site') and not any(mut['expect_site'] in v['site'] for v in out['violations']):
            return 'wrong-site'
        return 'detected'
    if out.get('code') == 1:
        return 'detected-other-rule'
    return 'undetected'


def run_mutants(prop, root, R):
    muts = [m for m in json.load(open(MUTANTS))['mutants'] if m['prop'] == prop] if os.path.exists(MUTANTS) else []
    seeds = []
    for d in sorted(os.listdir(SEEDED)) if os.path.isdir(SEEDED) else []:
        mp = os.path.join(SEEDED, d, 'meta.json')
        if d.startswith(prop + '-') and os.path.exists(mp):
            meta = json.load(open(mp))
            if meta.get('target_check_verdict') == 'VIOLATION':
                seeds.append(d)
    jobs = [('edit', m) for m in muts] + [('seed', s) for s in seeds]
    results = []
    with ThreadPoolExecutor(max_workers=8) as ex:
        futs = []
        for kind, j in jobs:
            if kind == 'edit':
                futs.append(ex.submit(_run_edit, prop, root, j))
            else:
                futs.append(ex.submit(_run_patch, prop, root, j, None))
        for fu in futs:
            results.append(fu.result())
    counts = {}
    for mut, verdict, out in results:
        counts[verdict] = counts.get(verdict, 0) + 1
        name = mut['name']
        if verdict in ('detected',):
            R.holds('SELFTEST', name, 'edit applied to a scratch copy is reported as a violation of %s' % (mut.get('expect_rule') or 'the property'), engine='selftest')
        elif verdict == 'detected-other-rule':
            R.holds('SELFTEST', name, 'edit is reported as a violation (by %s, expected %s)' % (sorted({v['rule'] for v in out['violations']}), mut.get('expect_rule')), engine='selftest')
        elif verdict in ('skipped', 'uncompilable'):
            pass
        else:
            R.undecided('SELFTEST', name, 'checker self-test: the edit `%s` -> `%s` was applied but %s' % (
                str(mut.get('old'))[:60], str(mut.get('new'))[:60], 'no violation was raised' if verdict == 'undetected' else 'the report does not name the edited site'))
    R.note('selftest', {'mutants': len(muts), 'seeded_replayed': len(seeds), 'verdicts': counts})
    if jobs and counts.get('detected', 0) + counts.get('detected-other-rule', 0) == 0:
        R.undecided('SELFTEST', 'all', 'no self-test edit could be applied and detected (%s)' % counts)
