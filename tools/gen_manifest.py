#!/usr/bin/env python3
"""Generates /verif/MANIFEST.json from the property modules that exist (keeps it valid at all times)."""
import importlib, json, os, sys
VERIF = os.path.dirname(os.path.dirname(os.path.abspath(__file__)))
sys.path.insert(0, VERIF)
NOT_APPLICABLE = {
    'C06': 'convergence/accuracy of a randomised iterative estimator (ICP+RANSAC) over a continuous envelope of one data file: no clause reduces to a structural fact that is a necessary condition of the statement; static analysis cannot bound it (DESIGN.md section 5)',
    'C08': 'minimality of kd-tree search results lives in the pruning arithmetic of the vendored nanoflann search; deciding it is a proof about run-time distances, not a structural fact; the structural facts available are far from sufficient and a hash of the vendored file would be a frozen-fragment proxy (DESIGN.md section 5)',
}
props = [json.loads(l) for l in open(os.path.join(VERIF, 'properties.jsonl'))]
checks, na, engines = [], [], {}
for p in props:
    pid = p['id']
    path = os.path.join(VERIF, 'analysis', 'props', pid + '.py')
    if pid in NOT_APPLICABLE:
        na.append({'property_id': pid, 'reason': NOT_APPLICABLE[pid]})
        continue
    if not os.path.exists(path):
        na.append({'property_id': pid, 'reason': 'static check designed (DESIGN.md section 4) but not built yet at this commit; not claimed until its rule set is armed and validated'})
        continue
    m = importlib.import_module('analysis.props.' + pid)
    if getattr(m, 'INCOMPLETE', False):
        na.append({'property_id': pid, 'reason': 'static check partly built (DESIGN.md section 4); not claimed until its full rule set is armed and validated'})
        continue
    checks.append({
        'property_id': pid,
        'quick_cmd': 'python3-vt bin/check.py %s --tier quick' % pid,
        'thorough_cmd': 'python3-vt bin/check.py %s --tier thorough' % pid,
        'evidence_file': 'evidence/%s.json' % pid,
        'replay_cmd_template': 'cat {path}; python3-vt bin/check.py %s --tier quick' % pid,
        'engine': getattr(m, 'ENGINES', 'romea-facts + rule engines'),
        'level_claimed': {'category': getattr(m, 'LEVEL', 'other'), 'text': m.LEVEL_TEXT, 'design_ref': 'DESIGN.md section 4, %s' % pid},
        'level_note': m.LEVEL_NOTE,
        'technique': m.TECHNIQUE,
    })
man = {
    'version': 1,
    'setup_cmd': './setup.sh',
    'hooks': {'guard': 'ROMEA_CORE_COMMON_VERIF', 'enable': 'none needed: the analysis reads the unmodified sources (no hook commits exist)',
              'baseline_off_cmd': 'cmake -S /repo -B /repo/_build -G Ninja -DCMAKE_BUILD_TYPE=RelWithDebInfo && cmake --build /repo/_build -j16 && ctest --test-dir /repo/_build -j8 --timeout 900',
              'source_commits': [], 'add_only': True},
    'engines': [
        {'name': 'romea-facts', 'path': 'tools/romea_facts.cc', 'serves_properties': [c['property_id'] for c in checks],
         'kind_free_text': 'libTooling (clang 14) extractor: resolved statement/expression trees of every function body incl. template instantiations, constant-evaluator values, record layouts'},
        {'name': 'rule engines', 'path': 'analysis/', 'serves_properties': [c['property_id'] for c in checks],
         'kind_free_text': 'E-LOCK lockset/escape, E-STATE def-use/path rules, E-ORD exhaustive order-domain evaluation, E-INT integer/range lints, E-SIB sibling agreement, E-ALG exact algebra on extracted formulas, E-WIT compile-time witnesses'},
    ],
    'checks': checks,
    'not_applicable': na,
    'notes': 'Static analysis only: every check re-extracts facts from /repo\'s working tree through the Clang front end and decides rule instances on them; nothing from the library is executed. Exit 0 holds / 1 VIOLATION / 2 ANALYSIS-BROKEN (anchor vanished or idiom not interpretable; never reported as a pass or as a violation). Known findings: known_findings.json.',
}
json.dump(man, open(os.path.join(VERIF, 'MANIFEST.json'), 'w'), indent=1)
print('checks:', [c['property_id'] for c in checks], 'n/a:', [n['property_id'] for n in na])
