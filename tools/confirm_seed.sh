#!/bin/bash
# usage: confirm_seed.sh <mutant-dir>      (dir contains patch.diff, demo.cpp, optional build_demo.sh <WT> <out>)
# Confirms in a scratch worktree of /repo HEAD (outside /repo and /verif): clean demo passes; with the patch the library
# builds, the whole ctest suite passes and the demo fails.  Writes <mutant-dir>/confirm.log and prints one summary line.
set -u
D="$(cd "$1" && pwd)"
WT=${CONFIRM_WT:-/tmp/wt/confirm}
LOG="$D/confirm.log"
: > "$LOG"
head=$(git -C /repo rev-parse HEAD)
if [ ! -d "$WT" ]; then git -C /repo worktree add --detach "$WT" "$head" -q >>"$LOG" 2>&1 || exit 3; fi
git -C "$WT" checkout -q -- . ; git -C "$WT" checkout -q --detach "$head" >>"$LOG" 2>&1
[ -f "$WT/_build/build.ninja" ] || cmake -G Ninja -S "$WT" -B "$WT/_build" -DCMAKE_BUILD_TYPE=RelWithDebInfo >>"$LOG" 2>&1
build_demo() {  # $1 = output binary
  if [ -x "$D/build_demo.sh" ]; then "$D/build_demo.sh" "$WT" "$1" >>"$LOG" 2>&1
  else g++ -std=c++17 -O1 -I"$WT/include" -isystem /usr/include/eigen3 "$D/demo.cpp" -L"$WT/_build" -lromea_core_common -Wl,-rpath,"$WT/_build" -lpthread -o "$1" >>"$LOG" 2>&1; fi
}
echo "== clean build" >>"$LOG"
cmake --build "$WT/_build" -j${JOBS:-12} >>"$LOG" 2>&1 || { echo "$D: CLEAN-BUILD-FAILED"; exit 1; }
build_demo /tmp/wt/demo_clean.$$ || { echo "$D: DEMO-BUILD-FAILED(clean)"; exit 1; }
( cd "$D" && timeout 600 /tmp/wt/demo_clean.$$ ) >>"$LOG" 2>&1; c1=$?
echo "== apply patch" >>"$LOG"
git -C "$WT" apply --3way "$D/patch.diff" >>"$LOG" 2>&1 || { echo "$D: PATCH-DOES-NOT-APPLY"; git -C "$WT" checkout -q -- .; git -C "$WT" reset -q; exit 1; }
git -C "$WT" reset -q
cmake --build "$WT/_build" -j${JOBS:-12} >>"$LOG" 2>&1; b=$?
t=1
if [ $b = 0 ]; then ctest --test-dir "$WT/_build" -j8 --timeout 900 >>"$LOG" 2>&1; t=$?; fi
c2=0
if [ $b = 0 ]; then build_demo /tmp/wt/demo_mut.$$ && { ( cd "$D" && timeout 600 /tmp/wt/demo_mut.$$ ) >>"$LOG" 2>&1; c2=$?; }; fi
git -C "$WT" checkout -q -- . ; git -C "$WT" reset -q
rm -f /tmp/wt/demo_clean.$$ /tmp/wt/demo_mut.$$
ok=NO; [ $c1 = 0 ] && [ $b = 0 ] && [ $t = 0 ] && [ $c2 != 0 ] && ok=YES
echo "$D: confirmed=$ok demo_clean_exit=$c1 build=$b ctest=$t demo_mutated_exit=$c2 head=$head"
echo "confirmed=$ok demo_clean_exit=$c1 build=$b ctest=$t demo_mutated_exit=$c2 head=$head" >>"$LOG"
