"""debug helper: python3-vt -i tools/fxshell.py Cxx [root]  -> fx, mod"""
import sys, importlib
sys.path.insert(0, '/verif')
from analysis import facts as F
prop = sys.argv[1]
root = sys.argv[2] if len(sys.argv) > 2 else '/repo'
mod = importlib.import_module('analysis.props.' + prop)
units = [u if not u.startswith('verif:') else F.synthetic_unit(u[6:]) for u in mod.UNITS]
fx = F.load(root, units)
