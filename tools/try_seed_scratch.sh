#!/bin/bash
# usage: try_seed_scratch.sh <patch> <prop>...   applies the patch to a scratch copy of /repo's sources (outside /repo and /verif), runs the quick
# checks on that copy without writing evidence, removes the copy.  Safe to run while other tools read /repo.
patch="$1"; shift
tmp=$(mktemp -d /tmp/wt/scratch.XXXXXX)
trap 'rm -rf "$tmp"' EXIT
cp -r /repo/include /repo/src /repo/CMakeLists.txt "$tmp"/ 2>/dev/null
[ -d /repo/test ] && cp -r /repo/test "$tmp/test"
if ! patch -p1 -s -d "$tmp" -i "$patch" > "$tmp/apply.err" 2>&1; then echo "patch does not apply: $(cat $tmp/apply.err)"; exit 3; fi
for p in "$@"; do
  (cd /verif && timeout 600 python3-vt bin/check.py "$p" --root "$tmp" --no-evidence > "$tmp/out" 2>&1; echo "[$p exit=$?]" >> "$tmp/out")
  grep -v "^WARNING conda" "$tmp/out" | sed "s#$tmp/##g" | cut -c1-700
done
