#!/usr/bin/env python3
"""regress_targets.py [ids...] - quick regression of the seed matrix after an engine change: for every kept seed, only the check of the property the seed breaks is run on a scratch copy with
the patch applied, and its verdict is compared with the one recorded in seeded/<id>/meta.json (developer tool; the full matrix is tools/eval_seeds.py)."""
import json, os, shutil, subprocess, sys, tempfile
from concurrent.futures import ThreadPoolExecutor
VERIF = '/verif'
SEEDED = os.path.join(VERIF, 'seeded')


def run_one(mid):
    mdir = os.path.join(SEEDED, mid)
    prop = mid.split('-')[0]
    try:
        meta = json.load(open(os.path.join(mdir, 'meta.json')))
    except Exception:
        return mid, None, 'no meta.json'
    tmp = tempfile.mkdtemp(prefix='romea-verif-regress-')
    try:
        for sub in ('include', 'src'):
            shutil.copytree(os.path.join('/repo', sub), os.path.join(tmp, sub))
        shutil.copy('/repo/CMakeLists.txt', tmp)
        r = subprocess.run(['patch', '-p1', '-s', '-i', os.path.join(mdir, 'patch.diff')], cwd=tmp, stdout=subprocess.PIPE, stderr=subprocess.STDOUT, text=True)
        if r.returncode != 0:
            return mid, meta.get('target_check_verdict'), 'patch does not apply'
        try:
            c = subprocess.run(['python3-vt', os.path.join(VERIF, 'bin', 'check.py'), prop, '--root', tmp, '--no-evidence', '--json'], stdout=subprocess.PIPE, stderr=subprocess.PIPE, text=True, timeout=900)
            code = c.returncode
        except subprocess.TimeoutExpired:
            code = 'timeout'
        return mid, meta.get('target_check_verdict'), {1: 'VIOLATION', 0: 'MISSED (exit 0)', 2: 'UNDECIDED (exit 2)'}.get(code, str(code))
    finally:
        shutil.rmtree(tmp, ignore_errors=True)


ids = sys.argv[1:] or sorted(d for d in os.listdir(SEEDED) if os.path.isfile(os.path.join(SEEDED, d, 'patch.diff')))
changed = 0
with ThreadPoolExecutor(max_workers=int(os.environ.get('WORKERS', '10'))) as ex:
    for mid, before, now in ex.map(run_one, ids):
        if (before or '').split(' ')[0].replace('ANALYSIS-BROKEN', 'UNDECIDED') != (now or '').split(' ')[0]:
            changed += 1
            print('%-12s before: %-20s now: %s' % (mid, before, now), flush=True)
print('SUMMARY %d seeds, %d verdicts changed' % (len(ids), changed))
