#!/bin/sh
# Runs every built property check (quick tier, no evidence written) and prints one status line each.
cd /verif
for f in analysis/props/C[0-9][0-9].py; do p=$(basename $f .py); python3-vt bin/check.py $p --no-evidence 2>&1 | grep -v "^WARNING conda" | tail -1 | cut -c1-200; done
