#!/usr/bin/env python3
"""Runs every built check against every seeded change (on scratch copies of /repo, never in /repo itself), writes
seeded/<id>/meta.json and prints the detection matrix.   usage: eval_seeds.py [id ...]"""
import json, os, shutil, subprocess, sys, tempfile
from concurrent.futures import ThreadPoolExecutor

VERIF = os.path.dirname(os.path.dirname(os.path.abspath(__file__)))
SEEDED = os.path.join(VERIF, 'seeded')

NEEDS = {
    'C10-r7m1': 'a numerically exact half turn (angle +-pi, the matrix -I) handed to rotation2DToEulerAngle',
    'C10-r7m2': 'a float argument with a negative value (non-template float overload of between0And2Pi adds 2/pi)',
    'C11-r7m1': 'an exactly diagonal xy covariance with var_y > var_x (ellipse fast path leaves the orientation at 0)',
    'C11-r7m2': 'a twist covariance with a planar variance below 1e-9 (perfectly known component, robot at rest)',
    'C12-r7m1': 'a weighted solve with a zero weight followed by another solve on the same object without refilling J and Y',
    'C12-r7m2': 'two dRTdAngles() results alive at once (result returned by reference to a member)',
    'C13-r7m1': 'interval form with an even number of cells on some axis (centres laid out from the middle cell)',
    'C13-r7m2': 'symmetric form with 0.25 < frac(R/res) < 0.5 and a point near +R (own count with round())',
    'C14-r7m1': 'one caster, two casts whose origins are different points of the same cell',
    'C14-r7m2': 'an oblique ray that crosses no cell border along one axis (step from the indexes, tMax guarded by the direction)',
    'C15-r8m1': '2-D grid with a non-zero Y offset left by an earlier translation, then one translation with both dx and dy non-zero (row range in storage order)',
    'C15-r8m2': '3-D grid whose X size is not a power of two and a negative X component (unsigned xIndex - 1)',
    'C16-r8m1': 'a sample near the top magnitude followed by small samples, variance read after the large ones left the window (double sum of squares)',
    'C16-r8m2': 'OnlineVariance fed negative samples that are not multiples of the precision (floor instead of truncation)',
    'C09-r8m1': 'an estimator copy-constructed from another one that is still alive (eigen results held by reference to the own solver)',
    'C09-r8m2': 'a double point type, non-planar cloud, k-th and (k+1)-th neighbour distances closer than float rounding (adaptor returns float)',
    'C17-r8m1': 'a first data stamp at exactly 0 ns, report read at stamp W+1 (non-increasing guard against the initial last stamp)',
    'C17-r8m2': 'two or more late heartbeats within one silence (timeout clears hasData_)',
    'C18-r8m1': 'on one CheckupLowerThan: an evaluation giving ERROR, then a value in [max - eps, max + eps) (hysteresis)',
    'C18-r8m2': 'the same (status, message) pair twice in the aggregated lists (de-duplication on append)',
    'C19-r8m1': 'a reader copying the report of a Checkup (or CheckupRate) while the writer is inside evaluate() (reference returned under the lock)',
    'C19-r8m2': 'a consume() overlapping a store() or another consume() (unlocked empty fast path)',
    'C20-r8m1': 'construct an interval, include() another that enlarges it, then build the box from it (cached centre / width)',
    'C20-r8m2': 'a homogeneous point type and the last component of getPointSetMean()',
    'C10-r8m1': 'roll != 0, pitch != 0 and cos(roll) != cos(yaw) together (written-out entry (0,1) of Rz Ry Rx)',
    'C10-r8m2': 'the scalar overload SphericalTransform::elevation(x, y, z) (arguments handed on in the old order)',
    'C11-r8m1': 'on one thread, T * tilted pose then T * planar pose (static thread_local rotation, init() skips exact zeros)',
    'C11-r8m2': 'a non-integral sigma scale (unsigned int parameter)',
    'C12-r8m1': 'a pose whose pitch is stored in (pi/2, 3pi/2) (cosine recovered from the sine)',
    'C12-r8m2': 'two or more threads inside operator*(Affine3d, Pose3D) at once (function-local static; outside the quantifier of C12)',
    'C13-r8m1': 'two centre-query results of one mapping alive together (reference to a scratch member)',
    'C13-r8m2': 'getCellCentersPositionAlong(axis) or a copy of the mapping (tables reserve()d, not resize()d)',
    'C14-r8m1': 'a ray confined to one line of cells going in the negative direction of that axis (fast path)',
    'C14-r8m2': 'polyline chaining on one caster: cast(caster.getEndPoint(), p2)',
    'C01-r8m1': 'a longitude within about 3e-7 rad of the +-90 deg meridians (cos derived from sin: cancellation, a rounding statement)',
    'C01-r8m2': 'southern hemisphere with geodetic latitude at or below about -45.2 deg (fabs(Z)/sin(latitude) height branch)',
    'C02-r8m1': 'a point far from the anchor horizontally and at a different height (height added along the anchor up axis)',
    'C02-r8m2': 'reset() followed by a new anchor, frame used as a 4x4 homogeneous matrix (bottom row left at zero)',
    'C03-r8m1': 'two consecutive toLambert() calls on one converter whose latitudes differ by less than 1e-10 rad',
    'C03-r8m2': 'an ellipsoid expressed in units of its semi-major axis (a = 1): rho < 1 apex guard',
    'C04-r8m1': 'rotation near pi of an anisotropic cloud (all entries of the cross-covariance block negative: signed maxCoeff)',
    'C04-r8m2': 'thin but not collinear clouds (second singular value below 1e-6 of the first)',
    'C05-r8m1': 'residuals that cancel without being zero (closed or symmetric object): signed sum test',
    'C05-r8m2': 'index-based overload with correspondence weights other than 1 and a non-zero residual',
    'C07-r8m1': 'estimate size exactly 1 with a non-trivial preconditioner through the Cholesky or weighted entry',
    'C07-r8m2': 'the double instantiation with cond(J) of about 100 (float accumulator in std::inner_product)',
    'C09-r7m1': 'single-precision point types, neighbourhoods with relative eigen-gap in ]1e-6, 3.45e-4] (isotropic fallback)',
    'C09-r7m2': 'two threads starting estimators on one fresh shared KdTree (lazy index build; outside the quantifier of C09: inputs and configurations only)',
    'C15-r7m1': '2-D grid, two translations with a Y component and different empty values (cached empty row)',
    'C15-r7m2': 'access through a Grid<T,DIM>& while an index offset is non-zero (accessors no longer virtual)',
    'C16-r7m1': 'window sum in precision units reaching 2^31: W >= 22 same-sign samples near the top magnitude (int accumulator)',
    'C16-r7m2': 'coarse precision / readings jittering by a few quanta (integer division of sum^2 / n)',
    'C17-r7m1': 'a heartbeat exactly 500000000 ns after the last stamp at an absolute time where the two conversions round apart',
    'C17-r7m2': 'bursty stream with a period under 1 ms',
    'C18-r7m1': 'a value bit-exactly on an equal-to acceptance bound',
    'C18-r7m2': 'an appended report with an info entry whose value is empty (after timeout(), before the first evaluation)',
    'C19-r7m1': 'a reader calling getVariance() while a writer calls update()',
    'C19-r7m2': 'a writer assigning an rvalue to a SharedVariable while a reader loads',
    'C20-r7m1': 'a query point outside a face by less than 1.19e-7, or a box with half-extents around 1e-9',
    'C20-r7m2': 'a point set with an axis on which every point is negative',
    'C01-r7m1': 'two toECEF results alive together on one converter (result returned by reference to a member buffer)',
    'C01-r7m2': 'longitude exactly 0 (prime meridian, Y == 0) or a Cartesian input with an exact zero X or Y',
    'C02-r7m1': 'anchor, toENU(P), setAnchor(B) without reset(), toENU(P) again (remembered last fix survives re-anchoring)',
    'C02-r7m2': 'two or more toWGS84 calls on one converter for points tens of km apart in latitude (restart from the previous latitude, 3 passes)',
    'C03-r7m1': 'any point strictly west of the central meridian (sign of sin lost)',
    'C03-r7m2': 'two converters with different projection constants in one process, toWGS84 on one then on the other (function-local statics)',
    'C04-r7m1': 'list overload, more than 256 noisy correspondences (stride sampling)',
    'C04-r7m2': 'homogeneous point type through the overload without a correspondence list (bottom-right entry of H)',
    'C05-r7m1': 'at least 128 correspondences with N % (N/64) != 0 and a non-zero residual on the dropped rows',
    'C05-r7m2': 'an estimated rotation above 0.075 rad (result projected onto the nearest rotation)',
    'C07-r7m1': 'setPreconditionner(A, b) with A != I and b != 0',
    'C07-r7m2': 'a well-conditioned J whose entries are small in magnitude (absolute epsilon added to the diagonal of JtJ)',
    'C01-r6m1': 'the EarthEllipsoid the converter was built from is re-assigned or destroyed afterwards (reference member)',
    'C01-r6m2': 'heights of several km (closed-form first guess and a cap of 2 refinement passes)',
    'C02-r6m1': 'first point exactly at latitude 0, longitude 0 on an un-anchored converter (no-fix guard skips the auto-anchor)',
    'C02-r6m2': 'an elevated anchor and a point within about 64 m of it (flat-earth fast path with surface radii)',
    'C03-r6m1': 'a point above about 66.5 deg of latitude (isometric latitude clamped to +-pi/2)',
    'C03-r6m2': 'a caller that aggregate-initialises TangentProjectionParameters in the order the header used to declare (field order changed; not observable inside the library)',
    'C04-r6m1': 'one estimator re-used: find without a correspondence list after a call on other data (member covariance workspace not reset)',
    'C04-r6m2': 'a cloud far from the origin relative to its extent (only the source set is centred): a rounding statement',
    'C05-r6m1': 'the aligned overload with a homogeneous point type (Map with CARTESIAN_DIM rows over POINT_SIZE storage)',
    'C05-r6m2': 'a 3-D point type with exactly 6 correspondences',
    'C07-r6m1': 'weightedEstimate() with a preconditioner matrix that is not a multiple of the identity',
    'C07-r6m2': 'a small-magnitude Y through the SVD path (JtY_.isZero())',
    'C09-r6m1': 'two consecutive points whose k-neighbourhoods are different index sets with equal sum of squared indexes (result reuse keyed on a scalar signature)',
    'C09-r6m2': 'a non-planar double cloud whose coordinates are large compared with the sampling step (ratio above ~1e6)',
    'C10-r6m1': 'operator*(T) used before R() after init() (rotation composed on demand, operator* reads the stale member)',
    'C10-r6m2': 'small Euler angles, squared norm below 1e-4 (first-order rotation)',
    'C11-r6m1': 'a 3D pose whose yaw is negative or above 2 pi (toPose2D normalises the yaw)',
    'C11-r6m2': 'a pose and/or transform with a roll/pitch component (rotations that do not commute)',
    'C12-r6m1': 'a rotation with an exact zero in slot (0,0) or (2,2): literal / permutation matrices, exact quarter turns',
    'C12-r6m2': 'dRTdAngles(T) called before any dRdAngleAround?Axis() after init() (tables composed on demand)',
    'C13-r6m1': 'two consecutive computeCellIndexes() calls on one float mapping with points closer than 1e-5*|p| but in different cells',
    'C13-r6m2': 'interval form with bounds that are not multiples of the resolution (lower bound in the upper half of its cell, upper bound just above a border)',
    'C14-r6m1': 'a cast whose end point coincides with its origin after an earlier cast (early return keeps the previous end cell)',
    'C14-r6m2': 'a caster bound with setGridIndexMapping(): default-constructed, or re-targeted to a grid of another resolution',
    'C15-r6m1': '3-D grid, a Y or Z scroll while the X index offset is non-zero (row fill over an empty pointer range)',
    'C15-r6m2': '3-D grid, one translation with |dx| >= nx (or |dy| >= ny) and a later component that is not a multiple of its size',
    'C16-r6m1': 'OnlineVariance with a full window and a sample equal to the one about to be evicted, followed by a different sample',
    'C16-r6m2': 'OnlineAverage(precision) + setWindowSize(W), queried before the W-th sample of the first filling',
    'C17-r6m1': 'expected rate below 4 Hz and a heartbeat between 0.5 s and 2/rate after the last stamp',
    'C17-r6m2': 'a tolerance larger than the expected rate',
    'C18-r6m1': 'an acceptance bound that is exactly 0 with a non-zero target and a tiny value just outside it (rounded difference)',
    'C18-r6m2': 'reliability bit-equal to the low threshold with low < high',
    'C19-r6m1': 'a reader copying the report while the writer is inside CheckupReliability::evaluate()',
    'C19-r6m2': 'a heartbeat concurrent with evaluate() after at least one completed evaluation',
    'C20-r6m1': 'a non-degenerate set whose largest side is at most the machine epsilon of the scalar type',
    'C20-r6m2': 'a set of exactly one point through the constructor overload',
    'C01-r5m1': 'a height above 32.768 km that is not float-representable (altitude field narrowed to float)',
    'C01-r5m2': 'an exactly spherical ellipsoid, b == a (e2 computed as inf/inf)',
    'C02-r5m1': 'local points tens of km from the anchor at mm accuracy, or an orthonormality check (rotation assembled in float)',
    'C02-r5m2': 'an anchor above about 50 deg of latitude and a mm-level round trip (EPSILON 1e-7)',
    'C03-r5m1': 'a point within 1e-5 rad of the central meridian but not on it (near() ignores its epsilon)',
    'C03-r5m2': 'a central meridian west of Greenwich, longitude0 < 0 (normalised to [0, 2 pi))',
    'C04-r5m1': 'double point type, preconditioned overloads, a scale not representable in float',
    'C04-r5m2': 'a 3-D point type with exactly 3 points / correspondences',
    'C05-r5m1': 'setPreconditioner(scale != 1) on A, copy or move A into B, B.find(...)',
    'C05-r5m2': 'a motion that is small in the units of the solved problem (low preconditioning scale or ~1e-6 motion)',
    'C07-r5m1': 'a data size that is an exact multiple of 64 with noisy observations',
    'C07-r5m2': 'weightedEstimate() with all weights >= 1 and not all 1',
    'C09-r5m1': 'strongly elongated neighbourhoods (closed-form eigen solver)',
    'C09-r5m2': 'the overloads returning normals and curvatures without reliabilities (flip after the copy)',
    'C10-r5m1': 'a yaw congruent to a value in (-pi, 0)',
    'C10-r5m2': 'a point close to the x axis (cancellation in sqrt(1 - cos^2)): a rounding statement',
    'C11-r5m1': 'T * pose, then pose.orientation modified in place, then T * pose again (cache inside the pose)',
    'C11-r5m2': 'a full-rank xy covariance with condition number between 8.4e6 and 1e8',
    'C12-r5m1': 'cond(J^T J) above 1e6 through the SVD path (relative threshold 1e-6)',
    'C12-r5m2': 'a non-null covariance with every entry at most 1e-12',
    'C13-r5m1': 'interval form with a negative exact half-multiple upper bound and a point on it',
    'C13-r5m2': 'two grids of one instantiation with different resolutions in one process (static const half cell)',
    'C14-r5m1': 'an end point exactly on a cell border reached in the positive direction',
    'C14-r5m2': 'a grid with more cells along y or z than along x and a ray reaching those indexes',
    'C15-r5m1': 'non-const access to cell c, a translate that is not a multiple of n, then cell c again',
    'C15-r5m2': 'an axis with offset c scrolled by d with c + d % n == n',
    'C16-r5m1': 'W >= 31 with samples near the top of the allowed magnitude and mixed signs (n * sum of squares overflows)',
    'C16-r5m2': 'isAvailable() queried when exactly W samples have arrived',
    'C17-r5m1': 'late heartbeat, data stamps, no early heartbeat, another late heartbeat',
    'C17-r5m2': 'one inter-stamp silence longer than 2.147 s (32-bit periods)',
    'C18-r5m1': 'a negative value with 6 significant digits and a three-digit exponent',
    'C18-r5m2': 'the pair {WARN, ERROR}',
    'C19-r5m1': 'consume() overlapping a store() while an earlier value is pending (try_to_lock)',
    'C19-r5m2': 'getReport() while CheckupLowerThan::evaluate runs (temporary lock_guard)',
    'C20-r5m1': 'a query point exactly on an upper face, or a box with a zero half-extent',
    'C20-r5m2': 'a set of at least 512 points',
    'C01-r4m1': '|latitude| above about 89.4 deg and a last iteration step above ~3e-13 rad (altitude taken at the previous latitude iterate)',
    'C01-r4m2': 'two converters on different ellipsoids in one process (function-local static const initialised from the first object)',
    'C02-r4m1': 'a point or anchor with negative ellipsoidal height (altitude computed as a distance)',
    'C02-r4m2': 'anchor; reset(); then the first conversion through the 2-D WGS84Coordinates overload (reads the NaN altitude reset() left)',
    'C03-r4m1': 'standard parallels given with the larger |latitude| first (misplaced abs in the coincident-parallel guard)',
    'C03-r4m2': 'eccentricity exactly 0 (sphere): shortcut asinh(sin lat) in both helpers',
    'C04-r4m1': 'correspondence list of full length that pairs some source i with a target j != i',
    'C04-r4m2': 'homogeneous point type + PreconditionedPointSet built with the scale-only compute + scale != 1',
    'C05-r4m1': 'over-determined problem with non-zero residual through the SVD path (rows equilibrated in place)',
    'C05-r4m2': 'index list with more entries than the source set has points',
    'C07-r4m1': 'a non-symmetric preconditioner matrix',
    'C07-r4m2': 'data size exactly equal to the estimate size with the Cholesky or weighted entry point',
    'C09-r4m1': 'k == 3 with a 3-D point type on a cloud that is not exactly planar',
    'C09-r4m2': 'a neighbourhood whose total variance is below machine epsilon in absolute value (small units / fine sampling, float)',
    'C10-r4m1': 'angles whose composed quaternion has w < 0 (e.g. yaw beyond about pi with small roll/pitch)',
    'C10-r4m2': 'toSpherical called with a HomogeneousCoordinates3',
    'C11-r4m1': 'two threads calling affine * pose3d concurrently (outside the quantifier of C11: inputs only)',
    'C11-r4m2': 'a twist covariance with non-zero correlation between linear velocity and the angular rates',
    'C12-r4m1': 'a pose whose transformed pitch lies in (84.26, 87.13] deg',
    'C12-r4m2': 'computeEstimateCovariance queried twice without re-solving, first variance != 1',
    'C13-r4m1': 'interval form with a lower bound of at least one resolution (extent strictly on the positive side)',
    'C13-r4m2': 'getCellCentersPositionAlong(0) as the first centre query, then computeCellCenterPosition',
    'C14-r4m1': 'extent bounds that are not multiples of the resolution (alpha >= beta >= 0.5) and an end point in the last cell',
    'C14-r4m2': 'one caster: an oblique cast, then a cast that does not move along one axis',
    'C15-r4m1': '2-D grid, one translation with both components non-zero and dx < 0, |dx| < nx',
    'C15-r4m2': 'a grid with exactly one cell along an axis and a non-zero translation along it',
    'C16-r4m1': 'plain OnlineAverage, more than W updates, large magnitudes followed by small ones (incremental double update)',
    'C16-r4m2': 'ring holding s items with 1 < s < W and W mod s != 0',
    'C17-r4m1': 'a heartbeat (time > 0.5 s) before the first data stamp',
    'C17-r4m2': 'expected rate >= 32 Hz (W = 64) and at least 65 stamps',
    'C18-r4m1': 'timeout() as the first operation on a check-up (default diagnostic is STALE with an empty message)',
    'C18-r4m2': 'a finite reliability outside [0, 1] or thresholds outside [0, 1]',
    'C19-r4m1': 'two concurrent producers calling store()',
    'C19-r4m2': 'reader calling isAvailable() while the writer is in the fill phase of the window',
    'C20-r4m1': '3-D box that is not elongated and a query point near a corner',
    'C20-r4m2': 'an included interval with zero width on some axis that extends beyond the receiver',
    'C01-r3m1': 'latitude exactly 0 or a Cartesian input with Z == 0 (altitude = Z / sin(latitude))',
    'C01-r3m2': 'two consecutive toECEF calls on one converter with identical latitude/longitude and different heights (member cache keyed on lat/lon)',
    'C02-r3m1': 'anchor(A); reset(); toENU(P) with P at the latitude/longitude of A (shortcut in front of the auto-anchor test reads the stale anchor)',
    'C02-r3m2': 'anchor on or near the antimeridian and a local point within metres of it (half-angle longitude formula cancels)',
    'C03-r3m1': 'secant projection on a non-GRS80 ellipsoid with latitude0 neither 0 nor 90 deg (defaulted eccentricity argument)',
    'C03-r3m2': 'the TangentProjectionParameters constructor on a non-spherical ellipsoid (aggregate return not extended: e = 0)',
    'C04-r3m1': '2-D point type, correspondence-list overload and a rotation beyond +-pi/2 (closed form with atan)',
    'C04-r3m2': 'small-magnitude but well-conditioned clouds: tiny preconditioning scale or tight cluster (cov.isZero() tolerance)',
    'C05-r3m1': 'one estimator: setPreconditioner with scale s != 1, then with scale exactly 1, then find',
    'C05-r3m2': 'aligned + preconditioned overload with scale != 1 (translation un-scaled twice)',
    'C07-r3m1': 'same-size problems on one solver with J refilled through a reference taken before the first solve (cached JtJ flag)',
    'C07-r3m2': 'weightedEstimate() with fractional weights (J^T W J instead of J^T W^2 J)',
    'C09-r3m1': 'an odd neighbourhood size k (stride-2 covariance loop without a remainder step)',
    'C09-r3m2': 'one estimator re-used on a point set at the same address and size with other coordinates (kd-tree cached by identity)',
    'C10-r3m1': 'a float point of norm in [1e-6, 3.45e-4) (guard compares the squared norm with machine epsilon)',
    'C10-r3m2': 'the SmartRotation3D(Vector3d) constructor (constant entries of the elementary tables left uninitialised)',
    'C11-r3m1': 'a pose with pitch outside [-pi/2, pi/2] (cos computed as sqrt(1 - sin^2))',
    'C11-r3m2': 'a correlated covariance with |cov_xy| < 1e-5 (near() is an absolute tolerance): treated as axis-aligned',
    'C12-r3m1': 'init(a,b,c) with non-zero angles followed by init(0,0,0) on the same object',
    'C12-r3m2': 'a singular positive semi-definite covariance (LLT of the covariance)',
    'C13-r3m1': 'a lower bound that is an exact multiple of the resolution with an unlucky reciprocal (floor(l*inv) vs floor(l/res))',
    'C13-r3m2': 'a copy of the mapping used after the source is destroyed (raw pointers into the source tables)',
    'C14-r3m1': 'origin and end closer than one cell but in different cells',
    'C14-r3m2': 'float instantiation, ~2000 cells per axis, shallow ray from a high-index cell (centre table filled by a running sum)',
    'C15-r3m1': '3-D grid, negative Y translation and a non-default empty value (helper default argument)',
    'C15-r3m2': '2-D grid and a translation of at least the grid size along an axis (offset reduced modulo n before blanking)',
    'C16-r3m1': 'mixed-sign samples that are not multiples of the precision (running sum truncated instead of the sample)',
    'C16-r3m2': 'OnlineVariance(precision) then setWindowSize(W) (windowSizeMinusOne_ not refreshed)',
    'C17-r3m1': '1..W stamps, silence, then a heartbeat more than 0.5 s late before stamp W+1',
    'C17-r3m2': 'jittered stream whose sum of W periods in ns is not a multiple of W (integer mean period)',
    'C18-r3m1': 'CheckupGreaterThan with the value exactly on the minimum and epsilon 0 (verdict helper picks the message from the target)',
    'C18-r3m2': 'two appended reports carrying the same info key with different values (operator[] overwrites; the statement does not say which side wins)',
    'C19-r3m1': 'SharedVariable of an arithmetic type: load() without the mutex',
    'C19-r3m2': 'a heartbeat between the two stores of the first update() of a fresh monitor (flag published before the stamp; no data race)',
    'C20-r3m1': 'a Cartesian point type and a set whose largest side lies on the last axis',
    'C20-r3m2': 'a proper rotation by a tiny non-zero angle (isIdentity() tolerance) of an elongated box',
    'C01-r2m1': 'any ellipsoidal height below 0 (quantifier goes to -11 km); altitude computed as a distance (hypot)',
    'C01-r2m2': 'rare inputs at |latitude| >= 57.3 deg for which the latitude iteration 2-cycles between adjacent doubles (EPSILON below one ulp): the call never returns',
    'C02-r2m1': 'anchor latitude exactly 0 and a local point with north coordinate 0 (altitude = Z / sin(latitude) is 0/0)',
    'C02-r2m2': 'anchor height not 0: up/north built from the ellipsoid gradient at the anchor position tilt by e2 sin cos h/N',
    'C03-r2m1': 'two consecutive calls on one thread with the same latitude and different eccentricities (static cache keyed on the latitude only)',
    'C03-r2m2': 'latitudes around 58-60 deg (or eccentricity near 0.1): the relaxed stop criterion leaves up to 2e-11 rad',
    'C04-r2m1': 'a PreconditionedPointSet re-used for a smaller cloud and the overload without a correspondence list',
    'C04-r2m2': 'a correspondence list that is a proper subset and pairs source i with a different target index',
    'C05-r2m1': 'a float point type and a problem with cond(J^T J) above about 3e3',
    'C05-r2m2': 'the aligned overload with a motion that has both a rotation and a sizeable translation',
    'C07-r2m1': 'setPreconditionner(A1, b1) with b1 != 0 followed by setPreconditionner(A2) on the same object',
    'C07-r2m2': 'a weighted problem with non-unit weights followed by an unweighted solve of at most as many rows on the same object',
    'C09-r2m1': 'a homogeneous point type (the normal receives POINT_SIZE entries of the eigenvector matrix)',
    'C09-r2m2': 'a cloud of exactly k+1 points (lower end of the quantifier)',
    'C10-r2m1': 'pitch between pi/2 - 1.414e-3 and pi/2 - 1e-3 with a non-zero roll',
    'C10-r2m2': 'a non-unit quaternion with a non-zero pitch',
    'C11-r2m1': 'a rigid transform with a tilt below 4.5e-5 rad (|R(2,2) - 1| < 1e-9) that is not an exact z-rotation',
    'C11-r2m2': 'the combined toPoseAndTwist2D on a pose with non-zero roll or pitch',
    'C12-r2m1': 'a LeastSquares object used for a larger then a smaller problem (stale buffer rows in the normal matrix)',
    'C12-r2m2': 'an exactly determined problem solved through the Cholesky path with a non-normal J, covariance read afterwards',
    'C13-r2m1': 'interval form with two consecutive axes of equal cell count and different lower bounds',
    'C13-r2m2': 'a negative lower bound that is not a multiple of the resolution (fractional part above 0.5)',
    'C20-r2m1': 'an oriented box with a zero extent along one of its axes (0/0 in normalised coordinates)',
    'C20-r2m2': 'the first point of the set holds the maximum of a coordinate (else-if chain from the sentinel seeds)',
    'C14-r2m1': '3D grid and an exact tie between the x and y crossing parameters not larger than the z one (exactly diagonal ray from a cell centre/corner)',
    'C14-r2m2': 'origin exactly on a cell border of an axis along which the ray moves in the negative direction, ray not axis-aligned',
    'C15-r2m1': 'read through the const overload of operator() on a grid that has a non-zero index offset',
    'C15-r2m2': '3D grid with ny != nz and a translation with a negative Z component',
    'C16-r2m1': 'a configured precision <= 1e-5 (multiplier*multiplier overflows int), variance only',
    'C16-r2m2': 'history: clear() followed by at least two appends on a ring of capacity >= 2',
    'C17-r2m1': 'non-integer expected rate with fractional part >= 0.5 in [2,32) Hz, report read at stamp number W',
    'C17-r2m2': 'equal-to check-up, window full, measured rate exactly on expected +- tolerance',
    'C18-r2m1': 'append to an accumulated report with zero diagnostics and a non-empty info map',
    'C18-r2m2': 'reliability check-up built with low threshold > high threshold and a value in [high, low)',
    'C19-r2m1': 'two or more consumers and an interleaving where B copies between the copy and the reset of A (no data race, TSan silent)',
    'C19-r2m2': 'a getReport() that wins the mutex between the two self-locking helper calls of evaluate() (no data race)',
    'C01-m1': 'longitude within ~2.6e-4 deg of the antimeridian (exactly -180 deg is the cleanest case)',
    'C01-m2': 'a converter built on a non-default ellipsoid (two cooperating sites: defaulted helper argument + forgotten argument)',
    'C02-m1': 'history: setAnchor twice with bit-identical lat/lon and a different height, no reset in between',
    'C02-m2': 'the untested scalar-triple overloads toECEF(x,y,z) / toWGS84(x,y,z)',
    'C02-m3': 'an anchor in the southern hemisphere (sin(lat) rewritten as sqrt(1-cos^2))',
    'C03-m1': 'a southern-hemisphere projection and a call to toWGS84 (atan2 instead of atan of the quotient)',
    'C03-m2': 'a southern-hemisphere projection and a check of absolute projected coordinates (|c| in the forward map)',
    'C04-m1': 'exactly coplanar 3-D correspondences not in a z=const plane (reflection correction applied to the product)',
    'C04-m2': 'noisy correspondences compared with Kabsch/Umeyama or a permuted list (one-pass covariance with the new mean on both sides)',
    'C05-m1': 'history: one estimator reused for a smaller problem after a larger one (whole-matrix J^T J)',
    'C05-m2': '3-D point type with a non-identity correspondence list (normal fetched with the source index)',
    'C07-m1': 'Cholesky path on a solver object that holds more rows than the current problem',
    'C07-m2': 'condition number of J between ~8e3 and 1e6 (double) or any float problem with cond > 54 (relative SVD truncation)',
    'C09-m1': 'one KdTree shared by estimators with different k, smaller k first (result set cached across queries)',
    'C09-m2': 'single-precision point type and a cloud far from the origin (one-pass covariance, catastrophic cancellation)',
    'C10-m1': 'history: re-initialising a SmartRotation3D with an exactly zero angle on an axis that was non-zero before',
    'C10-m2': 'an angle with 3*pi < |angle| < 4*pi handed to betweenMinusPiAndPi',
    'C11-m1': 'a rank-deficient positive semi-definite xy covariance whose smallest eigenvalue rounds to a tiny negative number',
    'C11-m2': 'a pose whose (intermediate or resulting) pitch lies between 1.0e-3 and 1.414e-3 rad from gimbal lock',
    'C12-m1': 'a diagonal preconditioner with unequal entries, correlated parameters, and a consumer of off-diagonal covariance terms',
    'C12-m2': 'an input covariance whose position/orientation cross block is non-zero and not symmetric',
    'C13-m1': 'float grid with tens of thousands of cells on one axis and a resolution that is not a power of two',
    'C13-m2': 'symmetric (maximal range) form with R an exact half-multiple of the resolution and a point with a coordinate equal to +R',
    'C14-m1': 'history: two consecutive casts on one caster with the same end point',
    'C14-m2': 'a long, almost axis-aligned ray whose minor direction component is below machine epsilon but still crosses a cell border',
    'C15-m1': 'a negative translation of magnitude greater than n plus the current offset on that axis',
    'C15-m2': 'history: a second scroll along the outermost axis while that axis already has a non-zero offset',
    'C16-m1': 'OnlineVariance: reset() after a number of updates that is not a multiple of W, then more than W further updates',
    'C16-m2': 'ring capacity that is not a power of two, buffer wrapped, read of an index k >= 1',
    'C17-m1': 'full window, perfectly steady stream with period > 0.5 s, a legitimate timeout, then the next on-schedule stamp',
    'C17-m2': 'a heartbeat between 500.000001 ms and 500.999999 ms after the last stamp',
    'C18-m1': 'history on one check-up: evaluate(v); timeout(); evaluate(v) with the bit-identical value (cache in setValue_, timeout clears the entry)',
    'C18-m2': 'a diagnostics list containing ERROR before the first STALE',
    'C19-m1': 'a heartbeat that really times out while a writer evaluates concurrently (unlocked early-out in Checkup::timeout)',
    'C19-m2': 'an OnlineVariance whose inherited getAverage()/isAvailable() are read while update() runs (mutex shadowed in the derived class)',
    'C20-m1': '3-D oriented box with a compound rotation about more than one axis (|R|^T h instead of |R| h)',
    'C20-m2': 'history: compute(A) then compute(B) on the same PointSetPreconditioner, B not covering A (two cooperating sites)',
}


def props():
    d = os.path.join(VERIF, 'analysis', 'props')
    return sorted(f[:-3] for f in os.listdir(d) if len(f) == 6 and f.startswith('C') and f.endswith('.py'))


def run_one(mid):
    mdir = os.path.join(SEEDED, mid)
    tmp = tempfile.mkdtemp(prefix='romea-verif-seed-')
    try:
        for sub in ('include', 'src'):
            shutil.copytree(os.path.join('/repo', sub), os.path.join(tmp, sub))
        shutil.copy('/repo/CMakeLists.txt', tmp)
        r = subprocess.run(['patch', '-p1', '-s', '-i', os.path.join(mdir, 'patch.diff')], cwd=tmp, stdout=subprocess.PIPE, stderr=subprocess.STDOUT, text=True)
        if r.returncode != 0:
            return mid, {'error': 'patch does not apply: ' + r.stdout[-300:]}
        res = {}
        for p in props():
            try:
                c = subprocess.run(['python3-vt', os.path.join(VERIF, 'bin', 'check.py'), p, '--root', tmp, '--no-evidence', '--json'],
                                   stdout=subprocess.PIPE, stderr=subprocess.PIPE, text=True, timeout=900)
            except subprocess.TimeoutExpired:
                res[p] = {'code': 2, 'violations': [], 'undecided': [{'rule': 'engine', 'instance': 'timeout', 'reason': 'check did not finish within 900 s'}]}
                continue
            try:
                out = json.loads(c.stdout.strip().splitlines()[-1])
            except Exception:
                out = {'code': c.returncode, 'violations': [], 'undecided': [], 'raw': (c.stdout + c.stderr)[-300:]}
            res[p] = out
        return mid, res
    finally:
        shutil.rmtree(tmp, ignore_errors=True)


def main():
    ids = sys.argv[1:] or sorted(d for d in os.listdir(SEEDED) if os.path.isfile(os.path.join(SEEDED, d, 'patch.diff')))
    head = subprocess.check_output(['git', '-C', '/repo', 'rev-parse', '--short', 'HEAD'], text=True).strip()
    vhead = subprocess.check_output(['git', '-C', VERIF, 'rev-parse', '--short', 'HEAD'], text=True).strip()
    rows = []
    with ThreadPoolExecutor(max_workers=8) as ex:
        for mid, res in ex.map(run_one, ids):
            prop = mid.split('-')[0]
            mdir = os.path.join(SEEDED, mid)
            confirm = ''
            cl = os.path.join(mdir, 'confirm.log')
            if os.path.exists(cl):
                confirm = open(cl).read().strip().splitlines()[-1]
            if 'error' in res:
                meta = {'id': mid, 'breaks_property': prop, 'error': res['error']}
                detected, undec, others = [], [], []
            else:
                detected = [p for p, o in res.items() if o['code'] == 1]
                undec = [p for p, o in res.items() if o['code'] == 2]
                others = [p for p in detected if p != prop]
                meta = {
                    'id': mid, 'breaks_property': prop,
                    'origin': 'written by an independent sub-agent that saw only the property text and a scratch worktree of /repo',
                    'needs_to_manifest': NEEDS.get(mid, 'see README.txt'),
                    'files': ['patch.diff', 'demo.cpp', 'README.txt'] + (['build_demo.sh'] if os.path.exists(os.path.join(mdir, 'build_demo.sh')) else []),
                    'confirmed_by_me': confirm,
                    'what_i_ran': ['tools/confirm_seed.sh seeded/%s   (scratch worktree: clean demo passes; patched: builds, ctest 29/29, demo fails)' % mid,
                                   'tools/eval_seeds.py %s   (all quick checks on a scratch copy with the patch applied)' % mid],
                    'repo_head': head, 'verif_head': vhead,
                    'detected_by': detected,
                    'target_check_verdict': {0: 'MISSED (exit 0)', 1: 'VIOLATION', 2: 'ANALYSIS-BROKEN (undecided, exit 2)'}.get(res.get(prop, {}).get('code'), 'n/a'),
                    'violations_reported': {p: [v['rule'] + ' ' + v['site'] for v in o['violations']][:4] for p, o in res.items() if o['violations']},
                    'undecided_in': undec,
                }
            with open(os.path.join(mdir, 'meta.json'), 'w') as f:
                json.dump(meta, f, indent=1)
            rows.append((mid, meta.get('target_check_verdict', 'error'), detected, undec))
    print('%-8s %-36s %-22s %s' % ('seed', 'target check', 'violation raised by', 'undecided in'))
    for r in sorted(rows):
        print('%-8s %-36s %-22s %s' % (r[0], r[1], ','.join(r[2]), ','.join(r[3])))


if __name__ == '__main__':
    main()
