#!/bin/bash
# usage: import_round.sh <tag> Cxx...   copies /tmp/wt/<Cxx><tag>-out/m{1,2}/{patch.diff,demo.cpp,README.txt} to seeded/<Cxx>-<tag>m{1,2}, removes the agent's worktree,
# and prints the first-contact verdict of the target check on a scratch copy (tools/try_seed_scratch.sh).
tag="$1"; shift
for p in "$@"; do
  for m in m1 m2; do
    src=/tmp/wt/${p}${tag}-out/$m; d=/verif/seeded/$p-${tag}$m
    [ -f $src/patch.diff ] || { echo "$p $m: no patch"; continue; }
    mkdir -p $d; cp $src/patch.diff $src/demo.cpp $src/README.txt $d/ 2>/dev/null
    [ -f $src/build_demo.sh ] && cp $src/build_demo.sh $d/ && chmod +x $d/build_demo.sh
  done
  git -C /repo worktree remove --force /tmp/wt/${p}${tag} 2>/dev/null
  for m in m1 m2; do
    d=/verif/seeded/$p-${tag}$m
    [ -f $d/patch.diff ] || continue
    echo "=== $p-${tag}$m"
    /verif/tools/try_seed_scratch.sh $d/patch.diff $p | grep "  rule=\|^C[0-9][0-9] \|ANALYSIS-BROKEN" | grep -v KNOWN | cut -c1-${WIDTH:-420} | sort | uniq | head -${LINES_:-5}
  done
done
