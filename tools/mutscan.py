#!/usr/bin/env python3
"""mutscan.py [Cxx ...]  - blind-spot scan of the checks (a development aid, not a registered check).
For every claimed property: single-token edits (comparison / arithmetic operator swaps, sin<->cos, small literal changes) on the lines the property's
anchors name as its mechanism; each edit is applied to a scratch copy of /repo's sources (outside /repo and /verif) and the property's quick check is run
on it (static analysis of the copy - nothing is compiled or executed).  Prints, per edit, the verdict; edits the check calls HOLDS are listed at the
end for triage by reading (many are equivalent or outside the property; the ones that are not are blind spots)."""
import json, os, re, sys, shutil, subprocess, tempfile, random
from concurrent.futures import ThreadPoolExecutor
props = {json.loads(l)['id']: json.loads(l) for l in open('/verif/properties.jsonl')}
claimed = sorted(f[:-3] for f in os.listdir('/verif/analysis/props') if len(f) == 6 and f.startswith('C') and f.endswith('.py'))
want = [a for a in sys.argv[1:] if a.startswith('C')] or claimed
PER = int(os.environ.get('PER', '24'))
OPS = [(r'(?<![<>=!\-])>(?![>=])', '<'), (r'(?<![<>=!\-])<(?![<=])', '>'), (r'(?<![+\w\)\]] )\+(?![+=])', '-'), (r' - ', ' + '), (r' \* ', ' / '), (r' / ', ' * '), (r'==', '!='), (r'&&', '||'),
       (r'\bsin\(', 'cos('), (r'\bcos\(', 'sin('), (r'\b0\.5\b', '0.25'), (r'\b2\b', '3'), (r'\b1\b', '2'), (r'\+\+', '--'), (r'>=', '>'), (r'<=', '<'), (r'\+=', '-='), (r'\batan2\(([^,]+), ([^)]+)\)', r'atan2(\2, \1)')]


def ranges(p):
    out = []
    for m in p['anchors'].get('mechanism', []):
        for part in m['where'].split(';'):
            part = part.strip()
            mm = re.match(r'(\S+?):([\d,\- ]+)$', part)
            if not mm:
                continue
            for r in mm.group(2).split(','):
                r = r.strip()
                a, _, b = r.partition('-')
                out.append((mm.group(1), int(a), int(b or a)))
    return out


def whole_files(p):
    out = []
    for f in p['anchors'].get('files', []):
        path = os.path.join('/repo', f)
        if os.path.exists(path) and f.endswith(('.cpp', '.hpp')):
            out.append((f, 20, len(open(path).read().split('\n'))))
    return out


def mutants(pid):
    res = []
    for (f, a, b) in (whole_files(props[pid]) if os.environ.get('WHOLE') else ranges(props[pid])):
        path = os.path.join('/repo', f)
        if not os.path.exists(path):
            continue
        lines = open(path).read().split('\n')
        for ln in range(max(1, a - 2), min(len(lines), b + 6) + 1):
            text = lines[ln - 1]
            code = text.split('//')[0]
            if not code.strip() or code.strip().startswith(('#', '*', 'template', 'assert', 'using', 'typedef')):
                continue
            if os.environ.get('OPSET') == 'del':
                # statement deletion: a whole simple statement (assignment / call) on one line
                st_ = code.strip()
                if st_.endswith(';') and not st_.startswith(('return', 'break', 'continue', 'const ', 'double ', 'float ', 'int ', 'size_t ', 'auto ', 'Scalar ', 'typename', 'Eigen::', 'std::', 'bool ', 'long ', '}')) \
                        and ('=' in st_ or '(' in st_) and st_.count('(') == st_.count(')') and not re.match(r'^[\w:<>,\s\*&]+\s+\w+(\s*=.*)?;$', st_):
                    res.append((f, ln, text.strip()[:90], code[:len(code) - len(code.lstrip())] + ';'))
                continue
            ops_ = OPS
            if os.environ.get('OPSET') == 'swap':
                ops_ = [(r'\((\d), (\d)\)', r'(\2, \1)'), (r'\.x\(\)', '.y()'), (r'\.y\(\)', '.x()'), (r'\[0\]', '[1]'), (r'\[1\]', '[0]'), (r'\[2\]', '[1]'), (r'\blower', 'upper'), (r'\bupper', 'lower'),
                        (r'std::min\(', 'std::max('), (r'std::max\(', 'std::min('), (r'\.min\(', '.max('), (r'\.max\(', '.min('), (r'\.front\(\)', '.back()'), (r'\.back\(\)', '.front()'), (r'\.row\(', '.col('),
                        (r'\.col\(', '.row('), (r'\btrue\b', 'false'), (r'\bfalse\b', 'true'), (r'floor\(', 'ceil('), (r'ceil\(', 'floor('), (r'\.transpose\(\)', ''), (r'\.head<', '.tail<'), (r'X', 'Y'), (r'\bZ\b', 'Y')]
            for (pat, rep) in ops_:
                mm = re.search(pat, code)
                if (mm and os.environ.get('OPSET') == 'swap') or (mm and '<<' not in code[:mm.start() + 2][-3:] and not re.search(r'\b(template|static_cast|const_cast|vector|Matrix|std::|include)\b[^;]*$', code[:mm.start()])) or (mm and pat in (r'\bsin\(', r'\bcos\(')):
                    new = code[:mm.start()] + re.sub(pat, rep, code[mm.start():], count=1)
                    if new != code:
                        res.append((f, ln, text.strip()[:90], new + text[len(code):]))
    random.Random(int(os.environ.get("RSEED", "7"))).shuffle(res)
    return res[:PER]


def run_one(job):
    pid, f, ln, old, new = job
    os.makedirs('/tmp/wt/mut', exist_ok=True)
    tmp = tempfile.mkdtemp(prefix='mut.', dir='/tmp/wt/mut')
    try:
        for d in ('include', 'src', 'CMakeLists.txt'):
            s = os.path.join('/repo', d)
            (shutil.copytree if os.path.isdir(s) else shutil.copy)(s, os.path.join(tmp, d))
        p = os.path.join(tmp, f)
        if not f.startswith(('include/', 'src/')) or not os.path.realpath(p).startswith(os.path.realpath(tmp) + os.sep):
            return (pid, f, ln, old, new.strip()[:90], -1, 'skipped: not a library source')       # never write through to /repo (test files are not copied)
        lines = open(p).read().split('\n')
        lines[ln - 1] = new
        open(p, 'w').write('\n'.join(lines))
        r = subprocess.run(['python3-vt', '/verif/bin/check.py', pid, '--root', tmp, '--no-evidence'], cwd='/verif', capture_output=True, text=True, timeout=900)
        last = [l for l in r.stdout.split('\n') if l.startswith(pid + ' ')]
        return (pid, f, ln, old, new.strip()[:90], r.returncode, (last[-1].split()[1] if last else '?'))
    except Exception as e:
        return (pid, f, ln, old, new.strip()[:90], -1, str(e)[:60])
    finally:
        shutil.rmtree(tmp, ignore_errors=True)


jobs = [(pid,) + m for pid in want for m in mutants(pid)]
print('%d edits' % len(jobs), flush=True)
surv = []
with ThreadPoolExecutor(int(os.environ.get('WORKERS', '6'))) as ex:
    for r in ex.map(run_one, jobs):
        print('%s %-60s:%-4d exit=%d %-10s | %s  ->  %s' % (r[0], r[1][-60:], r[2], r[5], r[6], r[3], r[4]), flush=True)
        if r[5] == 0:
            surv.append(r)
print('\nHOLDS on %d of %d edits (triage by reading):' % (len(surv), len(jobs)))
for r in surv:
    print('  %s %s:%d  %s  ->  %s' % (r[0], r[1], r[2], r[3], r[4]))
