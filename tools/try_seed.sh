#!/bin/sh
# usage: try_seed.sh <patch> <prop>...   applies the patch to /repo, runs the quick checks without evidence, reverts.
patch="$1"; shift
cd /repo || exit 3
if ! git diff --quiet; then echo "/repo has uncommitted changes"; exit 3; fi
if ! git apply --3way "$patch" 2>/tmp/apply.err; then echo "patch does not apply: $(cat /tmp/apply.err)"; git checkout -- . ; git reset -q; exit 3; fi
git reset -q
for p in "$@"; do
  (cd /verif && python3-vt bin/check.py "$p" --no-evidence 2>&1 | grep -v "^WARNING conda" | cut -c1-400)
  echo "[$p exit=$?]"
done
git checkout -- .
git status --short | grep -v _build
