#!/bin/bash
# usage: try_seed.sh <patch> <prop>...   applies the patch to /repo, runs the quick checks without evidence, always reverts.
patch="$1"; shift
cd /repo || exit 3
if ! git diff --quiet; then echo "/repo has uncommitted changes"; exit 3; fi
trap 'git -C /repo checkout -q -- . ; git -C /repo reset -q' EXIT
if ! git apply --3way "$patch" 2>/tmp/apply.err; then echo "patch does not apply: $(cat /tmp/apply.err)"; exit 3; fi
git reset -q
for p in "$@"; do
  (cd /verif && timeout 420 python3-vt bin/check.py "$p" --no-evidence > /tmp/try_seed.out 2>&1; echo "[$p exit=$?]" >> /tmp/try_seed.out)
  grep -v "^WARNING conda" /tmp/try_seed.out | cut -c1-600
done
