#!/usr/bin/env python3
"""gen_seed_prompts.py <round-tag>   e.g. r3  ->  /tmp/wt/<Cxx><tag>.prompt.txt for every claimed property.
The prompt contains only the property text (from properties.jsonl) and one line per idea earlier rounds already used (taken from
seeded/*/meta.json `needs_to_manifest`), never anything about the checks."""
import json, os, sys, glob
tag = sys.argv[1]
tmpl = open('/tmp/wt/PROMPT.tmpl').read() if os.path.exists('/tmp/wt/PROMPT.tmpl') else open(os.path.join(os.path.dirname(__file__), 'seed_prompt.tmpl')).read()
props = {json.loads(l)['id']: json.loads(l) for l in open('/verif/properties.jsonl')}
claimed = sorted(f[:-3] for f in os.listdir('/verif/analysis/props') if len(f) == 6 and f.startswith('C') and f.endswith('.py'))
for pid in claimed:
    p = props[pid]
    text = 'Property %s: %s\n\nStatement: %s\n\nQuantifier (inputs, configurations): %s' % (pid, p['title'], p['statement'], p['quantifier']['text'])
    used = []
    sys.path.insert(0, os.path.dirname(os.path.abspath(__file__)))
    import eval_seeds
    for d in sorted(glob.glob('/verif/seeded/%s-*' % pid)):
        mid = os.path.basename(d)
        u = eval_seeds.NEEDS.get(mid)
        if not u and os.path.exists(os.path.join(d, 'meta.json')):
            u = json.load(open(os.path.join(d, 'meta.json'))).get('needs_to_manifest', '')
        if u:
            used.append(u)
    if used:
        text += '\n\nIdeas ALREADY explored by earlier rounds for this property - do NOT reuse them or close variants; find different sites, clauses and mechanisms (prefer clauses of the statement that none of these touch):\n' + '\n'.join('  - ' + u for u in used)
    ident = pid + tag
    open('/tmp/wt/%s.prompt.txt' % ident, 'w').write(tmpl.replace('@ID@', ident).replace('@PROP@', text))
print('written', len(claimed))
