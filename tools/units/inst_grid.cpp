// Synthetic unit: explicit instantiations of the header-only grid templates that C15 quantifies over.
#include "romea_core_common/containers/grid/WrappableGrid.hpp"
namespace romea { namespace core {
template class WrappableGrid<int, 2>;
template class WrappableGrid<int, 3>;
template class WrappableGrid<float, 2>;
template class WrappableGrid<float, 3>;
}}
