// Synthetic unit: explicit instantiations of header-only math templates (C10, C11, C20).
#include "romea_core_common/math/Interval.hpp"
#include "romea_core_common/math/EulerAngles.hpp"
#include "romea_core_common/math/Matrix.hpp"
#include "romea_core_common/math/Transformation.hpp"
#include "romea_core_common/coordinates/PolarCoordinates.hpp"
#include "romea_core_common/coordinates/SphericalCoordinates.hpp"
namespace romea { namespace core {
template class Interval<double, 1>;
template class Interval<float, 1>;
template class Interval<int, 1>;
template class Interval<double, 2>;
template class Interval<float, 2>;
template class Interval<double, 3>;
template class Interval<float, 3>;
}}
