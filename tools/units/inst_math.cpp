// Synthetic unit: explicit instantiations of header-only math templates (C10, C11, C20).
#include "romea_core_common/math/Interval.hpp"
#include "romea_core_common/math/EulerAngles.hpp"
#include "romea_core_common/math/Matrix.hpp"
#include "romea_core_common/math/Transformation.hpp"
#include "romea_core_common/coordinates/PolarCoordinates.hpp"
#include "romea_core_common/coordinates/SphericalCoordinates.hpp"
#include "romea_core_common/containers/Eigen/EigenContainers.hpp"
namespace romea { namespace core {
template class Interval<double, 1>;
template class Interval<float, 1>;
template class Interval<int, 1>;
template class Interval<double, 2>;
template class Interval<float, 2>;
template class Interval<double, 3>;
template class Interval<float, 3>;
#define ROMEA_VERIF_INST(S) \
  template S between0And2Pi<S>(S); \
  template S betweenMinusPiAndPi<S>(S); \
  template S rotation2DToEulerAngle<S>(const Eigen::Matrix<S, 2, 2> &); \
  template Eigen::Matrix<S, 2, 2> eulerAngleToRotation2D<S>(const S &); \
  template Eigen::Matrix<S, 3, 1> rotation3DToEulerAngles<S>(const Eigen::Matrix<S, 3, 3> &); \
  template Eigen::Matrix<S, 3, 1> quaternionToEulerAngles<S>(const Eigen::Quaternion<S> &); \
  template Eigen::Quaternion<S> eulerAnglesToQuaternion<S>(const Eigen::Matrix<S, 3, 1> &); \
  template Eigen::Matrix<S, 3, 3> eulerAnglesToRotation3D<S>(const Eigen::Matrix<S, 3, 1> &); \
  template PolarCoordinates<S> toPolar<S>(const CartesianCoordinates2<S> &); \
  template CartesianCoordinates2<S> toCartesian<S>(const PolarCoordinates<S> &); \
  template HomogeneousCoordinates2<S> toHomogeneous<S>(const PolarCoordinates<S> &); \
  template SphericalCoordinates<S> toSpherical<S>(const CartesianCoordinates3<S> &); \
  template SphericalCoordinates<S> toSpherical<S>(const HomogeneousCoordinates3<S> &); \
  template CartesianCoordinates3<S> toCartesian<S>(const SphericalCoordinates<S> &); \
  template HomogeneousCoordinates3<S> toHomogeneous<S>(const SphericalCoordinates<S> &); \
  template S romea_verif_scalar_api<S>(S, S, S); \
  template S romea_verif_value_classes<S>(S, S, S); \
  template S romea_verif_point_api<S>(S, S, S);
// the scalar overloads of the coordinate transforms are instantiated through calls (overload resolution), not through explicit instantiations, so that a change of a parameter's
// order or constness still yields a unit the front end accepts
template<typename S> S romea_verif_scalar_api(S a, S b, S c)
{
  return SphericalTransform::range(a, b, c) + SphericalTransform::azimut(a, b) + SphericalTransform::elevation(a, b) + SphericalTransform::elevation(a, b, c) +
         SphericalTransform::x(a, b, c) + SphericalTransform::y(a, b, c) + SphericalTransform::z(a, b) + PolarTransform::azimut(a, b) + PolarTransform::range(a, b) +
         PolarTransform::x(a, b) + PolarTransform::y(a, b);
}
// the POINT overloads for the homogeneous and cartesian point types (public entry points that no translation unit of the library instantiates)
template<typename S> S romea_verif_point_api(S a, S b, S c)
{
  HomogeneousCoordinates2<S> h2(a, b);
  HomogeneousCoordinates3<S> h3(a, b, c);
  CartesianCoordinates2<S> c2(a, b);
  CartesianCoordinates3<S> c3(a, b, c);
  PolarCoordinates<S> pc(a, b);
  SphericalCoordinates<S> sc(a, b, c);
  HomogeneousCoordinates2<S> hp = toHomogeneous(pc);
  HomogeneousCoordinates3<S> hs = toHomogeneous(sc);
  return hp[0] + hs[0] + PolarTransform::azimut(h2) + PolarTransform::range(h2) + PolarTransform::azimut(c2) + PolarTransform::range(c2) +
         SphericalTransform::azimut(h3) + SphericalTransform::range(h3) + SphericalTransform::elevation(h3) +
         SphericalTransform::azimut(c3) + SphericalTransform::range(c3) + SphericalTransform::elevation(c3);
}
// copy construction and copy assignment of the coordinate value classes (instantiated through use, whatever their declaration looks like)
template<typename S> S romea_verif_value_classes(S a, S b, S c)
{
  PolarCoordinates<S> p1(a, b), p2(p1);
  p2 = p1;
  SphericalCoordinates<S> s1(a, b, c), s2(s1);
  s2 = s1;
  return p2.getRange() + s2.getElevation();
}
#define ROMEA_VERIF_CONT(P) std::vector<P, Eigen::aligned_allocator<P>>
template Eigen::Array2d min<ROMEA_VERIF_CONT(Eigen::Array2d)>(const ROMEA_VERIF_CONT(Eigen::Array2d) &);
template Eigen::Array2d max<ROMEA_VERIF_CONT(Eigen::Array2d)>(const ROMEA_VERIF_CONT(Eigen::Array2d) &);
template Eigen::Array3f min<ROMEA_VERIF_CONT(Eigen::Array3f)>(const ROMEA_VERIF_CONT(Eigen::Array3f) &);
template Eigen::Array3f max<ROMEA_VERIF_CONT(Eigen::Array3f)>(const ROMEA_VERIF_CONT(Eigen::Array3f) &);
template Eigen::Vector2d mean<ROMEA_VERIF_CONT(Eigen::Vector2d)>(const ROMEA_VERIF_CONT(Eigen::Vector2d) &);
template Eigen::Vector3f mean<ROMEA_VERIF_CONT(Eigen::Vector3f)>(const ROMEA_VERIF_CONT(Eigen::Vector3f) &);
ROMEA_VERIF_INST(double)
ROMEA_VERIF_INST(float)
}}
