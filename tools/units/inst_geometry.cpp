// Synthetic unit: explicit instantiations of the covariance selection maps (C11).
#include "romea_core_common/math/Matrix.hpp"
namespace romea { namespace core {
template Eigen::Matrix<double, 3, 3> toSe2Covariance<double>(const Eigen::Matrix<double, 6, 6> &);
template Eigen::Matrix<float, 3, 3> toSe2Covariance<float>(const Eigen::Matrix<float, 6, 6> &);
template Eigen::Matrix<double, 6, 6> toSe3Covariance<double>(const Eigen::Matrix<double, 3, 3> &);
template Eigen::Matrix<float, 6, 6> toSe3Covariance<float>(const Eigen::Matrix<float, 3, 3> &);
}}
