// Synthetic unit: explicit instantiations of the header-only templates that C16-C19 quantify over.
// Parsed by romea-facts only (never compiled to code, never run).
#include "romea_core_common/concurrency/SharedVariable.hpp"
#include "romea_core_common/concurrency/SharedOptionalVariable.hpp"
#include "romea_core_common/diagnostic/CheckupEqualTo.hpp"
#include "romea_core_common/diagnostic/CheckupGreaterThan.hpp"
#include "romea_core_common/diagnostic/CheckupLowerThan.hpp"
#include "romea_core_common/containers/Eigen/RingOfEigenVector.hpp"
namespace romea { namespace core {
template class SharedVariable<int>;
template class SharedVariable<double>;
template class SharedOptionalVariable<int>;
template class SharedOptionalVariable<double>;
template class Checkup<double>;
template class Checkup<int>;
template class CheckupEqualTo<double>;
template class CheckupEqualTo<int>;
template class CheckupGreaterThan<double>;
template class CheckupGreaterThan<int>;
template class CheckupLowerThan<double>;
template class CheckupLowerThan<int>;
template class RingOfEigenVector<Eigen::Vector2d>;
template class RingOfEigenVector<Eigen::Vector3f>;
}}
