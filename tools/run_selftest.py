#!/usr/bin/env python3
"""Runs the self-test edits of one or all properties and prints the verdict of each (developer tool)."""
import json, os, sys
sys.path.insert(0, os.path.dirname(os.path.dirname(os.path.abspath(__file__))))
from analysis import selftest as ST
from concurrent.futures import ThreadPoolExecutor
muts = json.load(open(ST.MUTANTS))['mutants']
props = sys.argv[1:] or sorted({m['prop'] for m in muts})
jobs = [m for m in muts if m['prop'] in props]
tally = {}
with ThreadPoolExecutor(max_workers=int(__import__("os").environ.get("WORKERS", "12"))) as ex:
    for mut, verdict, out in ex.map(lambda m: ST._run_edit(m['prop'], '/repo', m), jobs):
        extra = ''
        if verdict not in ('detected',):
            if isinstance(out, dict):
                extra = ' rules=%s undecided=%s' % (sorted({v['rule'] for v in out.get('violations', [])}), [(u['rule'], u['reason'][:120]) for u in out.get('undecided', [])][:2])
            else:
                extra = ' ' + str(out)
        print('%-5s %-40s %-20s%s' % (mut['prop'], mut['name'], verdict, extra))
        tally[verdict] = tally.get(verdict, 0) + 1
print('SUMMARY', len(jobs), 'edits:', tally)
sys.exit(0 if set(tally) <= {'detected'} else 1)
