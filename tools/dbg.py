#!/usr/bin/env python3
"""Developer helper: python3-vt -i tools/dbg.py <root> <unit> [<unit>...]  -> `fx` loaded; helpers: one(q), paths(f, **kw)."""
import os, sys
sys.path.insert(0, "/verif")
from analysis import facts as F, sym, mat, vec
from analysis.tree import sx, walk, pp
root = os.path.abspath(sys.argv[1])
units = [u if not u.startswith('verif:') else F.synthetic_unit(u[6:]) for u in sys.argv[2:]]
fx = F.load(root, units)
def names(sub):
    return sorted({f['q'] for f in fx.functions.values() if sub in f['q']})
