// romea-facts: libTooling fact extractor for the static checks in /verif (DESIGN.md section 3).
// For every function with a body in the wanted namespace (template instantiations included) it
// exports identity, signature and the body as a resolved statement/expression tree (JSON).
#include "clang/AST/ASTConsumer.h"
#include "clang/AST/ASTContext.h"
#include "clang/AST/DeclCXX.h"
#include "clang/AST/DeclTemplate.h"
#include "clang/AST/ExprCXX.h"
#include "clang/AST/Mangle.h"
#include "clang/AST/RecursiveASTVisitor.h"
#include "clang/AST/StmtCXX.h"
#include "clang/Frontend/CompilerInstance.h"
#include "clang/Frontend/FrontendAction.h"
#include "clang/Tooling/CommonOptionsParser.h"
#include "clang/Tooling/Tooling.h"
#include "llvm/Support/CommandLine.h"
#include "llvm/Support/JSON.h"
#include "llvm/Support/raw_ostream.h"
#include <set>
#include <cmath>

using namespace clang;
using namespace clang::tooling;
namespace json = llvm::json;

static llvm::cl::OptionCategory Cat("romea-facts");
static llvm::cl::opt<std::string> OutFile("o", llvm::cl::desc("output json"), llvm::cl::cat(Cat));
static llvm::cl::opt<std::string> Prefix("prefix", llvm::cl::desc("qualified-name prefix"),
                                         llvm::cl::init("romea::core::"), llvm::cl::cat(Cat));
static llvm::cl::opt<std::string> RepoRoot("root", llvm::cl::desc("only functions defined under these dirs (comma separated)"),
                                           llvm::cl::init("/repo/"), llvm::cl::cat(Cat));

namespace {

struct Exporter {
  ASTContext &C;
  const SourceManager &SM;
  PrintingPolicy PP;
  explicit Exporter(ASTContext &c) : C(c), SM(c.getSourceManager()), PP(c.getPrintingPolicy()) {
    PP.SuppressTagKeyword = true;
    PP.Bool = true;
  }

  std::string loc(SourceLocation L) {
    L = SM.getExpansionLoc(L);
    if (L.isInvalid()) return "";
    PresumedLoc P = SM.getPresumedLoc(L);
    if (P.isInvalid()) return "";
    return (llvm::Twine(P.getFilename()) + ":" + llvm::Twine(P.getLine()) + ":" + llvm::Twine(P.getColumn())).str();
  }

  std::string typeStr(QualType T) { return T.getCanonicalType().getAsString(PP); }

  json::Object typeInfo(QualType T) {
    json::Object o;
    QualType CT = T.getNonReferenceType().getCanonicalType();
    o["s"] = typeStr(T);
    if (CT->isBooleanType()) o["c"] = "bool";
    else if (CT->isEnumeralType()) o["c"] = "enum";
    else if (CT->isIntegerType()) {
      o["c"] = "int";
      o["bits"] = (int64_t)C.getTypeSize(CT);
      o["signed"] = CT->isSignedIntegerType();
    } else if (CT->isFloatingType()) {
      o["c"] = "fp";
      o["bits"] = (int64_t)C.getTypeSize(CT);
    } else if (CT->isRecordType()) o["c"] = "rec";
    else if (CT->isPointerType()) o["c"] = "ptr";
    if (T->isReferenceType()) o["ref"] = true;
    if (T.getNonReferenceType().isConstQualified()) o["const"] = true;
    return o;
  }

  std::string qname(const NamedDecl *D) {
    std::string s;
    llvm::raw_string_ostream os(s);
    D->getNameForDiagnostic(os, PP, true);
    return os.str();
  }

  std::unique_ptr<MangleContext> MC_;
  std::string mangled(const FunctionDecl *FD) {
    if (!MC_) MC_.reset(C.createMangleContext());
    if (isa<CXXConstructorDecl>(FD) || isa<CXXDestructorDecl>(FD)) return "";
    if (!MC_->shouldMangleDeclName(FD)) return FD->getNameAsString();
    std::string s; llvm::raw_string_ostream os(s);
    MC_->mangleName(GlobalDecl(FD), os);
    return os.str();
  }

  std::string declId(const Decl *D) {
    return std::to_string((uintptr_t)D->getCanonicalDecl());
  }

  // ---- expressions ----
  const Expr *strip(const Expr *E) {
    while (true) {
      if (auto *P = dyn_cast<ParenExpr>(E)) { E = P->getSubExpr(); continue; }
      if (auto *M = dyn_cast<MaterializeTemporaryExpr>(E)) { E = M->getSubExpr(); continue; }
      if (auto *W = dyn_cast<ExprWithCleanups>(E)) { E = W->getSubExpr(); continue; }
      if (auto *B = dyn_cast<CXXBindTemporaryExpr>(E)) { E = B->getSubExpr(); continue; }
      if (auto *F = dyn_cast<FullExpr>(E)) { E = F->getSubExpr(); continue; }
      if (auto *S = dyn_cast<SubstNonTypeTemplateParmExpr>(E)) { E = S->getReplacement(); continue; }
      if (auto *IC = dyn_cast<ImplicitCastExpr>(E)) {
        CastKind K = IC->getCastKind();
        if (K == CK_IntegralCast || K == CK_IntegralToFloating || K == CK_FloatingToIntegral ||
            K == CK_FloatingCast || K == CK_IntegralToBoolean || K == CK_FloatingToBoolean)
          return E;  // keep value-changing conversions
        E = IC->getSubExpr();
        continue;
      }
      return E;
    }
  }

  void constVal(const Expr *E, json::Object &o) {
    if (E->isValueDependent() || E->isTypeDependent()) return;
    Expr::EvalResult R;
    if (!E->getType()->isScalarType() && !E->getType()->isEnumeralType()) return;
    if (E->EvaluateAsRValue(R, C) && !R.HasSideEffects) {
      if (R.Val.isInt()) o["cv"] = R.Val.getInt().getExtValue();
      else if (R.Val.isFloat()) {
        double d = R.Val.getFloat().convertToDouble();
        if (std::isfinite(d)) o["cv"] = d; else o["cv"] = std::isnan(d) ? "nan" : (d > 0 ? "inf" : "-inf");
      }
    }
  }

  void calleeInfo(const FunctionDecl *FD, json::Object &o) {
    if (!FD) return;
    o["fk"] = qname(FD) + "|" + typeStr(FD->getType());
    o["rt"] = typeInfo(FD->getReturnType());
    json::Array pr;
    for (auto *P : FD->parameters()) {
      QualType T = P->getType();
      int v = 0;
      if (T->isLValueReferenceType() && !T.getNonReferenceType().isConstQualified()) v = 1;
      else if (T->isRValueReferenceType()) v = 2;
      else if (T->isPointerType() && !T->getPointeeType().isConstQualified()) v = 3;
      pr.push_back(v);
    }
    o["pref"] = std::move(pr);
    {
      // parameter names of the callee as declared where the definition (if visible) or the first declaration names them
      const FunctionDecl *Named = FD;
      if (const FunctionDecl *Def = FD->getDefinition()) Named = Def;
      json::Array pn;
      for (auto *P : Named->parameters()) pn.push_back(P->getNameAsString());
      o["pnames"] = std::move(pn);
    }
    if (auto *MD = dyn_cast<CXXMethodDecl>(FD)) { o["mconst"] = MD->isConst(); o["mstatic"] = MD->isStatic(); }
    o["inrepo"] = inRepo(FD->getLocation());
  }

  json::Value calleeName(const FunctionDecl *FD) {
    if (!FD) return nullptr;
    return qname(FD);
  }

  json::Value expr(const Expr *E0) {
    if (!E0) return nullptr;
    const Expr *E = strip(E0);
    json::Object o;
    o["loc"] = loc(E->getBeginLoc());
    o["t"] = typeInfo(E->getType());
    constVal(E, o);

    if (auto *IC = dyn_cast<ImplicitCastExpr>(E)) {
      o["k"] = "Cast"; o["implicit"] = true; o["ck"] = IC->getCastKindName();
      o["e"] = expr(IC->getSubExpr());
    } else if (auto *EC = dyn_cast<ExplicitCastExpr>(E)) {
      o["k"] = "Cast"; o["implicit"] = false; o["ck"] = EC->getCastKindName();
      o["e"] = expr(EC->getSubExpr());
    } else if (auto *B = dyn_cast<BinaryOperator>(E)) {
      o["k"] = "Bin"; o["op"] = B->getOpcodeStr().str();
      o["l"] = expr(B->getLHS()); o["r"] = expr(B->getRHS());
    } else if (auto *U = dyn_cast<UnaryOperator>(E)) {
      o["k"] = "Un"; o["op"] = UnaryOperator::getOpcodeStr(U->getOpcode()).str();
      o["postfix"] = U->isPostfix();
      o["e"] = expr(U->getSubExpr());
    } else if (auto *Q = dyn_cast<ConditionalOperator>(E)) {
      o["k"] = "Cond"; o["c"] = expr(Q->getCond()); o["a"] = expr(Q->getTrueExpr()); o["b"] = expr(Q->getFalseExpr());
    } else if (auto *OC = dyn_cast<CXXOperatorCallExpr>(E)) {
      o["k"] = "Op"; o["op"] = getOperatorSpelling(OC->getOperator());
      o["fn"] = calleeName(OC->getDirectCallee()); calleeInfo(OC->getDirectCallee(), o);
      if (auto *OMD = dyn_cast_or_null<CXXMethodDecl>(OC->getDirectCallee())) { o["member"] = true; o["cls"] = qname(OMD->getParent()); }
      json::Array a; for (auto *A : OC->arguments()) a.push_back(expr(A)); o["args"] = std::move(a);
    } else if (auto *MC = dyn_cast<CXXMemberCallExpr>(E)) {
      o["k"] = "MCall";
      const CXXMethodDecl *MD = MC->getMethodDecl();
      const Expr *Obj = MC->getImplicitObjectArgument();
      bool Qualified = false;               // X::f() names X's own f: no dynamic dispatch
      if (auto *ME = dyn_cast<MemberExpr>(MC->getCallee()->IgnoreParens())) Qualified = ME->hasQualifier();
      if (Qualified) o["qualified"] = true;
      if (MD && MD->isVirtual() && Obj && !Qualified) {  // devirtualise to the static type's final overrider
        QualType OT = Obj->IgnoreParenImpCasts()->getType();
        if (OT->isPointerType()) OT = OT->getPointeeType();
        if (auto *RD = OT->getAsCXXRecordDecl())
          if (RD->hasDefinition())
            if (auto *Fin = MD->getCorrespondingMethodInClass(RD, true)) { o["virt"] = true; MD = Fin; }
      }
      o["fn"] = MD ? json::Value(qname(MD)) : json::Value(nullptr);
      if (MD) { o["fnid"] = declId(MD); o["m"] = MD->getNameAsString(); o["cls"] = qname(MD->getParent()); calleeInfo(MD, o); }
      o["obj"] = expr(Obj);
      json::Array a; for (auto *A : MC->arguments()) a.push_back(expr(A)); o["args"] = std::move(a);
    } else if (auto *CE = dyn_cast<CallExpr>(E)) {
      o["k"] = "Call";
      const FunctionDecl *FD = CE->getDirectCallee();
      o["fn"] = calleeName(FD);
      if (FD) { o["fnid"] = declId(FD); o["m"] = FD->getNameAsString(); calleeInfo(FD, o); }
      json::Array a; for (auto *A : CE->arguments()) a.push_back(expr(A)); o["args"] = std::move(a);
    } else if (auto *ME = dyn_cast<MemberExpr>(E)) {
      o["k"] = "Member"; o["name"] = ME->getMemberDecl()->getNameAsString();
      if (auto *FD = dyn_cast<FieldDecl>(ME->getMemberDecl())) { o["cls"] = qname(FD->getParent()); o["field"] = true; }
      o["arrow"] = ME->isArrow();
      o["base"] = expr(ME->getBase());
    } else if (auto *DR = dyn_cast<DeclRefExpr>(E)) {
      o["k"] = "Ref"; o["name"] = DR->getDecl()->getNameAsString(); o["id"] = declId(DR->getDecl());
      const ValueDecl *VD = DR->getDecl();
      if (isa<ParmVarDecl>(VD)) o["rk"] = "param";
      else if (auto *V = dyn_cast<VarDecl>(VD)) {
        o["rk"] = V->isLocalVarDecl() ? "local" : "global";
        if (V->isStaticLocal()) o["static"] = true;
        if (!V->isLocalVarDecl() || V->isStaticLocal()) o["mut"] = !(V->getType().isConstQualified() || V->isConstexpr() || V->getType()->isReferenceType());
      }
      else if (isa<EnumConstantDecl>(VD)) { o["rk"] = "enumconst"; o["q"] = qname(VD); }
      else if (isa<FunctionDecl>(VD)) { o["rk"] = "func"; o["q"] = qname(VD); }
      else o["rk"] = "other";
    } else if (isa<CXXThisExpr>(E)) {
      o["k"] = "This";
    } else if (auto *IL = dyn_cast<IntegerLiteral>(E)) {
      o["k"] = "Int"; o["v"] = IL->getValue().getSExtValue();
    } else if (auto *FL = dyn_cast<FloatingLiteral>(E)) {
      o["k"] = "Float"; o["v"] = FL->getValueAsApproximateDouble();
    } else if (auto *BL = dyn_cast<CXXBoolLiteralExpr>(E)) {
      o["k"] = "Bool"; o["v"] = BL->getValue();
    } else if (auto *SL = dyn_cast<StringLiteral>(E)) {
      o["k"] = "Str"; if (SL->isAscii()) o["v"] = SL->getString().str();
    } else if (auto *CC = dyn_cast<CXXConstructExpr>(E)) {
      o["k"] = "Construct"; o["cls"] = qname(CC->getConstructor()->getParent());
      const CXXConstructorDecl *CD = CC->getConstructor();
      o["ctor"] = CD->isCopyConstructor() ? "copy" : CD->isMoveConstructor() ? "move" : CD->isDefaultConstructor() ? "default" : "other";
      o["fn"] = qname(CD); o["fnid"] = declId(CD); calleeInfo(CD, o);
      json::Array a; for (auto *A : CC->arguments()) a.push_back(expr(A)); o["args"] = std::move(a);
    } else if (auto *TE = dyn_cast<CXXTemporaryObjectExpr>(E)) {
      o["k"] = "Construct"; o["cls"] = qname(TE->getConstructor()->getParent());
    } else if (auto *AS = dyn_cast<ArraySubscriptExpr>(E)) {
      o["k"] = "Index"; o["base"] = expr(AS->getBase()); o["idx"] = expr(AS->getIdx());
    } else if (auto *DA = dyn_cast<CXXDefaultArgExpr>(E)) {
      o["k"] = "DefaultArg"; o["e"] = expr(DA->getExpr());
    } else if (auto *IL2 = dyn_cast<InitListExpr>(E)) {
      o["k"] = "InitList"; json::Array a; for (auto *A : IL2->inits()) a.push_back(expr(A)); o["args"] = std::move(a);
    } else if (auto *LE = dyn_cast<LambdaExpr>(E)) {
      o["k"] = "Lambda"; o["body"] = stmt(LE->getBody());
      json::Array lps;
      if (auto *CO = LE->getCallOperator())
        for (auto *P : CO->parameters()) { json::Object p; p["name"] = P->getNameAsString(); p["id"] = declId(P); p["t"] = typeInfo(P->getType()); lps.push_back(std::move(p)); }
      o["params"] = std::move(lps);
      {
        bool capThis = false; bool byRef = (LE->getCaptureDefault() == LCD_ByRef);
        for (const auto &C : LE->captures()) { if (C.capturesThis()) capThis = true; if (C.getCaptureKind() == LCK_ByRef) byRef = true; }
        o["captures_this"] = capThis; o["captures_by_ref"] = byRef;
      }
    } else if (isa<CXXNullPtrLiteralExpr>(E)) {
      o["k"] = "Null";
    } else if (auto *CL = dyn_cast<CharacterLiteral>(E)) {
      o["k"] = "Int"; o["v"] = (int64_t)CL->getValue(); o["char"] = true;
    } else if (isa<ImplicitValueInitExpr>(E) || isa<CXXScalarValueInitExpr>(E)) {
      o["k"] = "ValueInit";
    } else if (auto *SI = dyn_cast<CXXStdInitializerListExpr>(E)) {
      o["k"] = "StdInitList"; o["e"] = expr(SI->getSubExpr());
    } else if (auto *TE2 = dyn_cast<CXXThrowExpr>(E)) {
      o["k"] = "Throw"; o["e"] = expr(TE2->getSubExpr());
    } else {
      o["k"] = "Unknown"; o["cls"] = E->getStmtClassName();
      json::Array a;
      for (const Stmt *Ch : E->children()) if (auto *CE2 = dyn_cast_or_null<Expr>(Ch)) a.push_back(expr(CE2));
      o["args"] = std::move(a);
    }
    return json::Value(std::move(o));
  }

  json::Value varDecl(const VarDecl *V) {
    json::Object o;
    o["name"] = V->getNameAsString(); o["id"] = declId(V); o["t"] = typeInfo(V->getType());
    o["loc"] = loc(V->getLocation());
    if (V->hasInit()) o["init"] = expr(V->getInit());
    if (V->isStaticLocal()) o["static"] = true;
    if (V->getTLSKind() != VarDecl::TLS_None) o["tls"] = true;
    return json::Value(std::move(o));
  }

  json::Value stmt(const Stmt *S) {
    if (!S) return nullptr;
    json::Object o;
    o["loc"] = loc(S->getBeginLoc());
    if (auto *CS = dyn_cast<CompoundStmt>(S)) {
      o["k"] = "Compound"; json::Array a; for (auto *Ch : CS->body()) a.push_back(stmt(Ch)); o["s"] = std::move(a);
    } else if (auto *IS = dyn_cast<IfStmt>(S)) {
      o["k"] = "If"; o["c"] = expr(IS->getCond()); o["t"] = stmt(IS->getThen()); o["e"] = stmt(IS->getElse());
      if (IS->getInit() || IS->getConditionVariable()) o["unsupported"] = "if-init";
    } else if (auto *FS = dyn_cast<ForStmt>(S)) {
      o["k"] = "For"; o["init"] = stmt(FS->getInit()); o["c"] = FS->getCond() ? expr(FS->getCond()) : json::Value(nullptr);
      o["inc"] = FS->getInc() ? expr(FS->getInc()) : json::Value(nullptr); o["b"] = stmt(FS->getBody());
    } else if (auto *WS = dyn_cast<WhileStmt>(S)) {
      o["k"] = "While"; o["c"] = expr(WS->getCond()); o["b"] = stmt(WS->getBody());
    } else if (auto *DS = dyn_cast<DoStmt>(S)) {
      o["k"] = "Do"; o["c"] = expr(DS->getCond()); o["b"] = stmt(DS->getBody());
    } else if (auto *RF = dyn_cast<CXXForRangeStmt>(S)) {
      o["k"] = "RangeFor"; o["var"] = varDecl(RF->getLoopVariable()); o["range"] = expr(RF->getRangeInit()); o["b"] = stmt(RF->getBody());
    } else if (auto *RS = dyn_cast<ReturnStmt>(S)) {
      o["k"] = "Return"; o["e"] = RS->getRetValue() ? expr(RS->getRetValue()) : json::Value(nullptr);
    } else if (auto *D = dyn_cast<DeclStmt>(S)) {
      o["k"] = "Decl"; json::Array a;
      for (auto *Dd : D->decls()) if (auto *V = dyn_cast<VarDecl>(Dd)) a.push_back(varDecl(V));
      o["vars"] = std::move(a);
    } else if (isa<BreakStmt>(S)) { o["k"] = "Break";
    } else if (isa<ContinueStmt>(S)) { o["k"] = "Continue";
    } else if (isa<NullStmt>(S)) { o["k"] = "Null";
    } else if (auto *SW = dyn_cast<SwitchStmt>(S)) {
      o["k"] = "Switch"; o["c"] = expr(SW->getCond()); o["b"] = stmt(SW->getBody());
    } else if (auto *CSt = dyn_cast<CaseStmt>(S)) {
      o["k"] = "Case"; o["v"] = expr(CSt->getLHS()); o["b"] = stmt(CSt->getSubStmt());
    } else if (auto *DSt = dyn_cast<DefaultStmt>(S)) {
      o["k"] = "Default"; o["b"] = stmt(DSt->getSubStmt());
    } else if (auto *E = dyn_cast<Expr>(S)) {
      o["k"] = "Expr"; o["e"] = expr(E);
    } else if (auto *TS = dyn_cast<CXXTryStmt>(S)) {
      o["k"] = "Try"; o["b"] = stmt(TS->getTryBlock());
    } else {
      o["k"] = "Unsupported"; o["cls"] = S->getStmtClassName();
    }
    return json::Value(std::move(o));
  }

  bool inRepo(SourceLocation L) {
    PresumedLoc P = SM.getPresumedLoc(SM.getExpansionLoc(L));
    if (P.isInvalid()) return false;
    llvm::StringRef F(P.getFilename());
    llvm::SmallVector<llvm::StringRef, 4> Roots;
    llvm::StringRef(RepoRoot).split(Roots, ',', -1, false);
    for (auto R : Roots) if (F.startswith(R)) return true;
    return false;
  }

  json::Value function(const FunctionDecl *FD) {
    json::Object o;
    o["q"] = qname(FD); o["id"] = declId(FD); o["name"] = FD->getNameAsString(); o["mangled"] = mangled(FD);
    o["sig"] = typeStr(FD->getType()); o["key"] = qname(FD) + "|" + typeStr(FD->getType());
    o["endloc"] = loc(FD->getEndLoc());
    if (auto *Pat = FD->getTemplateInstantiationPattern()) o["pattern_loc"] = loc(Pat->getLocation());
    o["loc"] = loc(FD->getLocation());
    o["ret"] = typeInfo(FD->getReturnType());
    o["tsk"] = (int64_t)FD->getTemplateSpecializationKind();
    json::Array ps;
    for (auto *P : FD->parameters()) { json::Object p; p["name"] = P->getNameAsString(); p["id"] = declId(P); p["t"] = typeInfo(P->getType()); ps.push_back(std::move(p)); }
    o["params"] = std::move(ps);
    if (auto *MD = dyn_cast<CXXMethodDecl>(FD)) {
      o["cls"] = qname(MD->getParent());
      o["virtual"] = MD->isVirtual(); o["const"] = MD->isConst(); o["static"] = MD->isStatic();
      o["access"] = (int64_t)MD->getAccess();
      if (auto *CD = dyn_cast<CXXConstructorDecl>(MD)) {
        o["ctor"] = true; o["copyctor"] = CD->isCopyConstructor();
        json::Array inits;
        for (auto *I : CD->inits()) {
          json::Object io;
          if (I->isMemberInitializer()) io["field"] = I->getMember()->getNameAsString();
          else if (I->isBaseInitializer()) io["base"] = typeStr(QualType(I->getBaseClass(), 0));
          else if (I->isDelegatingInitializer()) io["delegating"] = true;
          io["written"] = I->isWritten();
          io["e"] = expr(I->getInit());
          inits.push_back(std::move(io));
        }
        o["inits"] = std::move(inits);
      }
      if (isa<CXXDestructorDecl>(MD)) o["dtor"] = true;
    }
    o["body"] = stmt(FD->getBody());
    return json::Value(std::move(o));
  }

  json::Value record(const CXXRecordDecl *RD) {
    json::Object o;
    o["q"] = qname(RD); o["loc"] = loc(RD->getLocation());
    if (auto *TS = dyn_cast<ClassTemplateSpecializationDecl>(RD)) o["tsk"] = (int64_t)TS->getSpecializationKind();
    json::Array fs;
    for (auto *F : RD->fields()) {
      json::Object f; f["name"] = F->getNameAsString(); f["t"] = typeInfo(F->getType()); f["mutable"] = F->isMutable();
      if (F->hasInClassInitializer() && F->getInClassInitializer()) f["init"] = expr(F->getInClassInitializer());
      f["access"] = (int64_t)F->getAccess();
      fs.push_back(std::move(f));
    }
    o["fields"] = std::move(fs);
    json::Array bs; for (auto &B : RD->bases()) bs.push_back(typeStr(B.getType())); o["bases"] = std::move(bs);
    json::Array ms;
    for (auto *M : RD->methods()) {
      json::Object m; m["name"] = M->getNameAsString(); m["q"] = qname(M); m["deleted"] = M->isDeleted();
      m["sig"] = typeStr(M->getType()); m["const"] = M->isConst(); m["pure"] = M->isPure();
      if (auto *CD = dyn_cast<CXXConstructorDecl>(M)) { m["ctor"] = true; m["copyctor"] = CD->isCopyConstructor(); m["movector"] = CD->isMoveConstructor(); }
      m["copyassign"] = M->isCopyAssignmentOperator(); m["moveassign"] = M->isMoveAssignmentOperator();
      m["access"] = (int64_t)M->getAccess(); m["virtual"] = M->isVirtual(); m["implicit"] = M->isImplicit();
      m["ret"] = typeInfo(M->getReturnType());
      ms.push_back(std::move(m));
    }
    o["methods"] = std::move(ms);
    return json::Value(std::move(o));
  }
};

struct V : RecursiveASTVisitor<V> {
  Exporter &X; json::Array &Fns; json::Array &Recs; json::Array &Enums; std::set<std::string> seen;
  V(Exporter &x, json::Array &f, json::Array &r, json::Array &e) : X(x), Fns(f), Recs(r), Enums(e) {}
  bool shouldVisitTemplateInstantiations() const { return true; }
  bool shouldVisitImplicitCode() const { return false; }

  bool wanted(const NamedDecl *D) {
    std::string q = D->getQualifiedNameAsString();
    if (llvm::StringRef(q).startswith(Prefix)) return true;
    if (llvm::StringRef(q).startswith("(anonymous namespace)::") && X.inRepo(D->getLocation())) return true;
    return false;
  }

  bool VisitFunctionDecl(FunctionDecl *D) {
    if (!D->doesThisDeclarationHaveABody() || D->isDependentContext()) return true;
    if (!wanted(D) || !X.inRepo(D->getLocation())) return true;
    std::string key = X.qname(D) + "|" + X.typeStr(D->getType());
    if (!seen.insert(key).second) return true;
    Fns.push_back(X.function(D));
    return true;
  }
  bool VisitCXXRecordDecl(CXXRecordDecl *D) {
    if (!D->isThisDeclarationADefinition() || D->isDependentContext() || D->isLambda()) return true;
    if (!wanted(D) || !X.inRepo(D->getLocation())) return true;
    std::string key = "R|" + X.qname(D);
    if (!seen.insert(key).second) return true;
    Recs.push_back(X.record(D));
    return true;
  }
  bool VisitEnumDecl(EnumDecl *D) {
    if (!D->isThisDeclarationADefinition() || !wanted(D)) return true;
    json::Object o; o["q"] = X.qname(D); json::Array cs;
    for (auto *EC : D->enumerators()) { json::Object c; c["name"] = EC->getNameAsString(); c["v"] = EC->getInitVal().getExtValue(); cs.push_back(std::move(c)); }
    o["consts"] = std::move(cs); Enums.push_back(std::move(o));
    return true;
  }
};

struct Cons : ASTConsumer {
  void HandleTranslationUnit(ASTContext &C) override {
    Exporter X(C); json::Array F, R, E; V v(X, F, R, E); v.TraverseDecl(C.getTranslationUnitDecl());
    json::Object root; root["functions"] = std::move(F); root["records"] = std::move(R); root["enums"] = std::move(E);
    root["errors"] = (int64_t)C.getDiagnostics().getClient()->getNumErrors();
    std::error_code EC; llvm::raw_fd_ostream os(OutFile.empty() ? "-" : OutFile.getValue(), EC);
    os << json::Value(std::move(root)) << "\n";
  }
};
struct Act : ASTFrontendAction {
  std::unique_ptr<ASTConsumer> CreateASTConsumer(CompilerInstance &, StringRef) override { return std::make_unique<Cons>(); }
};
}  // namespace

int main(int argc, const char **argv) {
  auto P = CommonOptionsParser::create(argc, argv, Cat);
  if (!P) { llvm::errs() << P.takeError(); return 2; }
  ClangTool T(P->getCompilations(), P->getSourcePathList());
  return T.run(newFrontendActionFactory<Act>().get());
}
