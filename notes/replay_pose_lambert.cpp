#include <iostream>
#include <romea_core_common/geodesy/LambertConverter.hpp>
#include <romea_core_common/geometry/Pose3D.hpp>
#include <romea_core_common/math/EulerAngles.hpp>
using namespace romea::core;
int main(int argc,char**argv){
  if(argc>1){
  LambertConverter::SecantProjectionParameters p{ 0.4, -0.6, -0.5, -0.7, 1000, 2000};
  EarthEllipsoid e(6378137.0, 6356752.314);
  auto pp=LambertConverter::computeProjectionParameters(p,e);
  std::cout<<"n="<<pp.n<<" c="<<pp.c<<" ys="<<pp.ys<<std::endl;
  LambertConverter lc(p,e);
  WGS84Coordinates w{-0.6,0.4};
  auto xy=lc.toLambert(w); std::cout<<"fwd origin -> "<<xy.transpose()<<" (expect 1000 2000)"<<std::endl;
  auto back=lc.toWGS84(xy); std::cout<<"back "<<back.latitude<<" "<<back.longitude<<std::endl;
  return 0;}
  // Pose3D jacobian by finite differences
  Eigen::Affine3d A=Eigen::Affine3d::Identity(); A.rotate(Eigen::AngleAxisd(0.3,Eigen::Vector3d(1,1,0.2).normalized())); A.translation()<<1,2,3;
  Pose3D p; p.position<<0.5,-1,2; p.orientation<<0.2,-0.3,0.7; p.covariance=Eigen::Matrix6d::Identity();
  Pose3D r=A*p; // covariance = J J^T
  Eigen::Matrix6d Jn; double h=1e-6;
  auto f=[&](const Eigen::Matrix<double,6,1>&x){ Pose3D q; q.position=x.head<3>(); q.orientation=x.tail<3>(); q.covariance.setZero(); Pose3D o=A*q; Eigen::Matrix<double,6,1> y; y<<o.position,o.orientation; return y;};
  Eigen::Matrix<double,6,1> x0; x0<<p.position,p.orientation;
  for(int k=0;k<6;k++){ auto xp=x0,xm=x0; xp(k)+=h; xm(k)-=h; Eigen::Matrix<double,6,1> d=f(xp)-f(xm); for(int i=3;i<6;i++){ d(i)=betweenMinusPiAndPi(d(i)); } Jn.col(k)=d/(2*h);} 
  std::cout<<"J J^T (numeric):\n"<<Jn*Jn.transpose()<<"\nreported covariance:\n"<<r.covariance<<"\n";
}
