import sympy as sp, time
t0=time.time()
# atoms
sl,cl,so,co=sp.symbols('sl cl so co', real=True)     # sin/cos lat, lon
a,e2,h=sp.symbols('a e2 h', positive=True)
N=sp.Symbol('N',positive=True)                        # N = a/sqrt(1-e2*sl^2)  => relation N^2*(1-e2*sl^2)=a^2
rels=[sl**2+cl**2-1, so**2+co**2-1, N**2*(1-e2*sl**2)-a**2]
def nf(expr, gens):
    num,den=sp.fraction(sp.together(expr))
    G=sp.groebner(rels,*gens,order='grevlex')
    return G.reduce(sp.expand(num))[1]
gens=(N,sl,cl,so,co,a,e2,h)
X=(N+h)*cl*co; Y=(N+h)*cl*so; Z=(N*(1-e2)+h)*sl
# O1: linear in h with coefficient n, |n|=1
n=[sp.diff(v,h) for v in (X,Y,Z)]
print('n=',n,' |n|^2-1 ->',nf(sum(c*c for c in n)-1,gens))
# O2: h=0 point on ellipsoid  X^2/a^2+Y^2/a^2+Z^2/(a^2(1-e2)) = 1
X0,Y0,Z0=[v.subs(h,0) for v in (X,Y,Z)]
print('ellipsoid ->',nf((X0**2+Y0**2)*(1-e2)+Z0**2-a**2*(1-e2),gens))
# O3: gradient parallel to n: cross product zero
g=[X0/a**2,Y0/a**2,Z0/(a**2*(1-e2))]
cr=[g[1]*n[2]-g[2]*n[1], g[2]*n[0]-g[0]*n[2], g[0]*n[1]-g[1]*n[0]]
print('grad x n ->',[nf(c,gens) for c in cr])
# inverse consistency: norm=(N+h)cl ; update: tan(lat')*(1 - a e2 cl/(norm*sqrt(1-e2 sl^2))) = Z/norm ; a/sqrt(..)=N
norm=(N+h)*cl
lhs=(sl/cl)*(1-N*e2*cl/norm) - Z/norm
print('fixed point ->',nf(lhs,gens))
print('altitude ->',nf(norm/cl-N-h,gens))
# mutated forward: (1+e2)
Zm=(N*(1+e2)+h)*sl
print('MUT ellipsoid ->',nf((X0**2+Y0**2)*(1-e2)+Zm.subs(h,0)**2-a**2*(1-e2),gens))
print('time',time.time()-t0)
