import json,sys
def E(e):
    if e is None: return '∅'
    k=e['k']
    if k=='Bin': return f"({E(e['l'])} {e['op']} {E(e['r'])})"
    if k=='Un': return f"({e['op']}{E(e['e'])})" if not e.get('postfix') else f"({E(e['e'])}{e['op']})"
    if k=='Cond': return f"({E(e['c'])} ? {E(e['a'])} : {E(e['b'])})"
    if k=='Op': return f"op{e['op']}[{', '.join(E(a) for a in e['args'])}]"
    if k=='MCall': return f"{E(e['obj'])}.{e.get('m')}({', '.join(E(a) for a in e['args'])})"
    if k=='Call': return f"{e.get('fn')}({', '.join(E(a) for a in e['args'])})"
    if k=='Member': return f"{E(e['base'])}.{e['name']}"
    if k=='Ref': return e['name']+(f"#{e['cv']}" if 'cv' in e and e['rk']!='local' else '')
    if k=='This': return 'this'
    if k in('Int','Float','Bool','Str'): return repr(e.get('v'))
    if k=='Cast': return f"<{e['ck']}:{e['t']['s']}>({E(e['e'])})"
    if k=='Construct': return f"new {e['cls']}({', '.join(E(a) for a in e.get('args',[]))})"
    if k=='DefaultArg': return f"default({E(e['e'])})"
    return f"?{k}:{e.get('cls')}({', '.join(E(a) for a in e.get('args',[]))})"
def S(s,ind=0):
    p='  '*ind
    if s is None: return
    k=s['k']
    if k=='Compound':
        for c in s['s']: S(c,ind)
    elif k=='If':
        print(p+'if',E(s['c'])); S(s['t'],ind+1)
        if s.get('e'): print(p+'else'); S(s['e'],ind+1)
    elif k=='For':
        print(p+'for init:'); S(s['init'],ind+2); print(p+'  cond',E(s['c']),' inc',E(s['inc'])); S(s['b'],ind+1)
    elif k=='While': print(p+'while',E(s['c'])); S(s['b'],ind+1)
    elif k=='Return': print(p+'return',E(s['e']))
    elif k=='Decl':
        for v in s['vars']: print(p+'decl',v['name'],':',v['t']['s'],'=',E(v.get('init')))
    elif k=='Expr': print(p+E(s['e']))
    else: print(p+k, s.get('cls',''))
d=json.load(open(sys.argv[1]))
for f in d['functions']:
    if any(f['q']==w or f['q'].endswith(w) for w in sys.argv[2:]):
        print('==',f['q'],f['loc'], 'cls=',f.get('cls'))
        for i in f.get('inits',[]): print('   init',i.get('field') or i.get('base') or 'delegating','=',E(i['e']), '' if i['written'] else '(implicit)')
        S(f['body'],1)
