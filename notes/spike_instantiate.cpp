#include "romea_core_common/containers/grid/WrappableGrid.hpp"
#include "romea_core_common/containers/Eigen/RingOfEigenVector.hpp"
#include "romea_core_common/concurrency/SharedVariable.hpp"
#include "romea_core_common/concurrency/SharedOptionalVariable.hpp"
#include "romea_core_common/diagnostic/CheckupEqualTo.hpp"
#include "romea_core_common/diagnostic/CheckupGreaterThan.hpp"
#include "romea_core_common/diagnostic/CheckupLowerThan.hpp"
#include "romea_core_common/math/EulerAngles.hpp"
#include "romea_core_common/math/Matrix.hpp"
#include "romea_core_common/math/Interval.hpp"
#include "romea_core_common/coordinates/PolarCoordinates.hpp"
namespace romea { namespace core {
template class WrappableGrid<int, 2>;
template class WrappableGrid<int, 3>;
template class RingOfEigenVector<Eigen::Vector2d>;
template class SharedVariable<int>;
template class SharedOptionalVariable<int>;
template class CheckupEqualTo<double>;
template class CheckupGreaterThan<double>;
template class CheckupLowerThan<double>;
template class Interval<double, 1>;
template class Interval<double, 2>;
template double between0And2Pi<double>(double);
template float between0And2Pi<float>(float);
template double betweenMinusPiAndPi<double>(double);
template Eigen::Matrix<double,3,1> rotation3DToEulerAngles<double>(const Eigen::Matrix<double,3,3>&);
template Eigen::Quaternion<double> eulerAnglesToQuaternion<double>(const Eigen::Matrix<double,3,1>&);
template Eigen::Matrix<double,3,3> toSe2Covariance<double>(const Eigen::Matrix<double,6,6>&);
template PolarCoordinates<double> toPolar<double>(const CartesianCoordinates2<double>&);
}}
