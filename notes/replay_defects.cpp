#include <iostream>
#include <romea_core_common/containers/grid/WrappableGrid.hpp>
#include <romea_core_common/containers/Eigen/RingOfEigenVector.hpp>
#include <romea_core_common/monitoring/OnlineVariance.hpp>
#include <romea_core_common/pointset/algorithms/PointSetPreconditioner.hpp>
#include <romea_core_common/transform/estimation/FindRigidTransformationBySVD.hpp>
#include <romea_core_common/geodesy/LambertConverter.hpp>
using namespace romea::core;
int main(){
  { // C15 second translate
    using G=WrappableGrid<int,2>; G g(G::CellIndexes(4,4));
    for(size_t x=0;x<4;x++)for(size_t y=0;y<4;y++) g(G::CellIndexes(x,y))=10*x+y;
    g.translate(G::CellIndexesOffset(1,0),-1); // window slides +1: logical x' = x-1 => g(0,y) should be old (1,y)=10+y ; g(3,y) = -1
    std::cout<<"after t1: "; for(size_t x=0;x<4;x++) std::cout<<g(G::CellIndexes(x,0))<<" "; std::cout<<" off="<<g.getIndexOffsetAlongAxes().transpose()<<"\n";
    g.translate(G::CellIndexesOffset(1,0),-2); // expect 20 30 -1 -2 , offset 2
    std::cout<<"after t2: "; for(size_t x=0;x<4;x++) std::cout<<g(G::CellIndexes(x,0))<<" "; std::cout<<" off="<<g.getIndexOffsetAlongAxes().transpose()<<"\n";
  }
  { // C15 negative z
    using G=WrappableGrid<int,3>; G g(G::CellIndexes(2,2,3));
    for(size_t x=0;x<2;x++)for(size_t y=0;y<2;y++)for(size_t z=0;z<3;z++) g(G::CellIndexes(x,y,z))=100*x+10*y+z;
    g.translate(G::CellIndexesOffset(0,0,-1),-1); // expect z=0 -> -1, z=1-> old z0, z=2-> old z1
    std::cout<<"neg z: "; for(size_t z=0;z<3;z++) std::cout<<g(G::CellIndexes(0,0,z))<<" "; std::cout<<"\n";
  }
  { // C16 ring
    RingOfEigenVector<Eigen::Vector2d> r(3);
    for(int i=0;i<4;i++) r.append(Eigen::Vector2d(i,i)); // items 0..3 ; last three 3,2,1 ; ringIndex_=0
    std::cout<<"ring[k]: "; for(size_t k=0;k<3;k++) std::cout<<r[k].x()<<" "; std::cout<<"(expect 3 2 1)\n";
  }
  { // C16 reset index
    OnlineAverage a(1.0,3); for(double v:{1.,2.,3.,4.}) a.update(v); // index_=1
    a.reset(); for(double v:{10.,20.,30.}) a.update(v); a.update(40.); // window should be 20,30,40 => 30
    std::cout<<"avg after reset: "<<a.getAverage()<<" (expect 30)\n";
    OnlineVariance v(1e-6,4); for(double x:{1.,2.,3.,4.}) v.update(x);
    std::cout<<"var @1e-6: "<<v.getVariance()<<" (expect 1.6667)\n";
  }
  { // C20
    PointSet<Eigen::Vector2d> ps; ps.emplace_back(-3,-4); ps.emplace_back(-1,-2);
    PointSetPreconditioner<Eigen::Vector2d> p(ps);
    std::cout<<"max: "<<p.getPointSetMax().transpose()<<" (expect -1 -2) scale="<<p.getScale()<<" (expect 0.5)\n";
  }
  { // C04 coplanar 3D
    PointSet<Eigen::Vector3d> s,t; 
    Eigen::Matrix3d R; R=Eigen::AngleAxisd(0.7,Eigen::Vector3d(1,2,3).normalized());
    Eigen::Vector3d T(1,2,3);
    for(int i=0;i<5;i++)for(int j=0;j<5;j++){ Eigen::Vector3d p(i,j*1.5,0); s.push_back(p); t.push_back(R*p+T);} 
    FindRigidTransformationBySVD<Eigen::Vector3d> f; auto H=f.find(s,t);
    std::cout<<"det(R_est)="<<H.block<3,3>(0,0).determinant()<<" err="<<(H.block<3,3>(0,0)-R).norm()<<"\n";
    // several rotations
    int bad=0; for(int k=0;k<200;k++){ Eigen::Matrix3d Rk; Rk=Eigen::AngleAxisd(0.03*k,Eigen::Vector3d(std::sin(k),std::cos(2*k),0.3+0.01*k).normalized()); PointSet<Eigen::Vector3d> tt; for(auto&p:s) tt.push_back(Rk*p+T); auto Hk=f.find(s,tt); if(Hk.block<3,3>(0,0).determinant()<0) bad++; }
    std::cout<<"reflections in 200 coplanar trials: "<<bad<<"\n";
  }
  return 0;
}
