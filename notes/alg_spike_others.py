import sympy as sp, time
t0=time.time()
def reduce0(expr, rels, gens):
    num,den=sp.fraction(sp.together(expr))
    G=sp.groebner(rels,*gens,order='grevlex')
    return sp.factor(G.reduce(sp.expand(num))[1])

# ---------- C03 secant: scale at phi1, phi2 ; origin ; tangent
n,c,N1,N2,c1,c2,E1,E2,E0,q,y0,x0,xs,ys=sp.symbols('n c N1 N2 c1 c2 E1 E2 E0 q y0 x0 xs ys')
# atoms: E1=exp(n*L1), E2=exp(n*L2), E0=exp(n*L0); relation from n's definition: exp(n(L1-L2)) = N2c2/(N1c1)  => E1*N1*c1 = E2*N2*c2
# c = N1*c1/n*E1
cdef = N1*c1/n*E1
rels=[E1*N1*c1 - E2*N2*c2]
k1 = n*cdef*(1/E1)/(N1*c1)
k2 = n*cdef*(1/E2)/(N2*c2)
print('k(phi1)-1 ->', sp.simplify(k1-1))
print('k(phi2)-1 ->', reduce0(k2-1, rels, (E1,E2,N1,N2,c1,c2,n)))
# origin: y = ys - c*exp(-n L0)*cos(0) ; ys = y0 + c*exp(-n L0)
ysdef = y0 + cdef/E0
print('origin y - y0 ->', sp.simplify(ysdef - cdef/E0*1 - y0))
# tangent: n=sin0, C=k0*N*cot*exp(n L0), scale at phi0 = n*C*exp(-nL0)/(N*cos0)
s0,cc0,k0,N0=sp.symbols('s0 cc0 k0 N0')
C = k0*N0*(cc0/s0)*E0
print('tangent k(phi0)-k0 ->', sp.simplify(s0*C/E0/(N0*cc0) - k0))
YS = y0 + k0*N0*(cc0/s0)
print('tangent origin ->', sp.simplify(YS - C/E0 - y0))

# ---------- C03 conformality: dL/dphi = (1-e^2)/((1-e^2 sin^2) cos) using t=tan(phi/2)
t,e=sp.symbols('t e',positive=True)
s=2*t/(1+t**2); co=(1-t**2)/(1+t**2)
# L = log(tan(pi/4+phi/2) * ((1-e s)/(1+e s))^(e/2)); tan(pi/4+phi/2) = (1+t)/(1-t)
# dL/dphi = d/dphi log((1+t)/(1-t)) + (e/2) d/dphi log((1-e s)/(1+e s)) ; dphi = 2 dt/(1+t^2)
dphi_dt = 2/(1+t**2)
dL_dt = sp.diff(sp.log((1+t)/(1-t)),t) + (e/2)*sp.diff(sp.log((1-e*s)/(1+e*s)),t)
lhs = dL_dt/dphi_dt
rhs = (1-e**2)/((1-e**2*s**2)*co)
print('conformality ->', sp.cancel(sp.together(lhs-rhs)))

# ---------- C03 computeLatitude fixed point: alpha*exp(L) = tan(pi/4+phi/2)
P=sp.Symbol('P',positive=True)  # P = ((1-es)/(1+es))^(e/2); alpha = ((1+es)/(1-es))^(e/2) = 1/P
T=sp.Symbol('T',positive=True)  # tan(pi/4+phi/2)
expL = T*P
print('fixed point alpha*exp(L)-T ->', sp.simplify((1/P)*expL - T))

# ---------- C02: rotation orthonormal, det=+1, up = d ecef/d alt
sl,cl,so,co2=sp.symbols('sl cl so co')
R=sp.Matrix([[-so, -sl*co2, cl*co2],[co2, -sl*so, cl*so],[0, cl, sl]])
rel2=[sl**2+cl**2-1, so**2+co2**2-1]
G=sp.groebner(rel2,sl,cl,so,co2,order='grevlex')
I=(R.T*R - sp.eye(3))
print('RtR-I ->',[G.reduce(sp.expand(x))[1] for x in I])
print('det-1 ->',G.reduce(sp.expand(R.det()-1))[1])
# ---------- C12 derivative tables
x=sp.Symbol('x'); cx,sx=sp.symbols('cx sx')
Rx=sp.eye(3); Rx[1,1]=cx; Rx[1,2]=-sx; Rx[2,1]=sx; Rx[2,2]=cx
dRx_code=sp.eye(3); dRx_code[1,1]=-sx; dRx_code[1,2]=-cx; dRx_code[2,1]=cx; dRx_code[2,2]=-sx
def d(expr): # formal derivative wrt x with d sx = cx, d cx = -sx
    return sp.diff(expr,sx)*cx + sp.diff(expr,cx)*(-sx)
dRx_true=Rx.applyfunc(d)
print('dRx mismatch entries ->',[(i,j,dRx_code[i,j],dRx_true[i,j]) for i in range(3) for j in range(3) if sp.expand(dRx_code[i,j]-dRx_true[i,j])!=0])
# ---------- C05 3D: J row vs scatter
e0,e1,e2_,e3,e4,e5=sp.symbols('e0:6'); s0_,s1_,s2_,n0,n1,n2=sp.symbols('s0 s1 s2 n0 n1 n2')
M=sp.eye(4); M[0,1]=-e5; M[1,0]=e5; M[0,2]=e4; M[2,0]=-e4; M[1,2]=-e3; M[2,1]=e3; M[0,3]=e0; M[1,3]=e1; M[2,3]=e2_
sv=sp.Matrix([s0_,s1_,s2_,1]); nv=sp.Matrix([n0,n1,n2,0])
res=(nv.T*(M*sv))[0]
Jcode=[n0,n1,n2, s1_*n2-s2_*n1, s2_*n0-s0_*n2, s0_*n1-s1_*n0]
print('J vs scatter ->',[sp.expand(sp.diff(res,ek)-jc) for ek,jc in zip((e0,e1,e2_,e3,e4,e5),Jcode)])
# ---------- C16 variance formula
S,SS,m,W=sp.symbols('S SS m W',positive=True)
avg=S/(m*W); sqavg=SS/(m*m); var=(sqavg - W*avg*avg)/(W-1)
print('variance ->', sp.simplify(var - ((SS/m**2) - (S/m)**2/W)/(W-1)))
print('time',time.time()-t0)
